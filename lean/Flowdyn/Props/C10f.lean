/-
C10f — HLLC positivity on the pipeline: the lift of `C10e.hllc_step_adm` (one cell, one forward-Euler step, `eHllc`)
to the model's first-order discretisations, exactly as C10b / C10c do for HLLE.

0. `hllcSLv/SMv/SRv`: the code's three HLLC speeds (`C13f.hllcSL/SM/SR`) between two primitive state vectors;
   `HllcOrdered γ L R : sL < sM < sR`; `hllc_cell_positive`: the one-cell statement on the data of the pipeline
   (conservative cell state, primitive neighbour vectors); `hllc_fe_cell`: any residual that is the HLLC flux difference.
1. periodic pipeline (`eulerHllcDisc = fo1 … (eulerFluxV γ .hllc)`): `HllcFaceOK` (ordered speeds at every face),
   `HllcFaceCFL` (`dt/vol_i (max sR(face i) 0 - min sL(face i+1) 0) ≤ 1`), `hllc_fe_positive`,
   `hllc_uniform_fe_positive`.
2. SSP: `hllc_rk2_heun_positive`, `hllc_rk3ssp_positive`, `hllc_explicit_positive` (conditions at every stage state).
3. open ends (`eulerHllcOpen = fo1Open …`), ANY admissibility-preserving boundary kernels: `hllc_fe_positive_open`,
   `_walls`, `_named`, `_named'` (all ten named kernels, `C10d.EulerBCAdm'`), and the SSP / `explicitStep` versions.
4. the ordered-speed hypothesis made checkable: `hllcOrdered_iff` (exact pressure-jump criterion at the code's speeds),
   `hllcOrdered_of_pressure_jump` (sufficient: `uL - cL ≤ uR`, `uL ≤ uR + cR`, `pR < (1+γ) pL`, `pL < (1+γ) pR`),
   `hllcOrdered_self` (equal states: always ordered), `hllcFaceOK_of_pressure_jump`.
5. examples: non-uniform two-cell periodic data (pressure ratio 49) for `hllc_fe_positive`; uniform data for the SSP
   theorems; a resting gas between walls.
-/
import Flowdyn.Props.C10e
import Flowdyn.Props.C10d

namespace Flowdyn.C10f
open Flowdyn Flowdyn.C10

set_option linter.unusedSimpArgs false
set_option linter.unnecessarySeqFocus false
set_option linter.unusedVariables false

/-! ## 0. the three HLLC speeds between primitive state vectors; the one-cell statement on pipeline data -/

/-- the code's left HLLC speed between two primitive state vectors `(ρ, u, p)` -/
noncomputable def hllcSLv (γ : ℝ) (L R : ℕ → ℝ) : ℝ := C13f.hllcSL γ (L 0) (L 1) (L 2) (R 0) (R 1) (R 2)
/-- the code's contact speed between two primitive state vectors -/
noncomputable def hllcSMv (γ : ℝ) (L R : ℕ → ℝ) : ℝ := C13f.hllcSM γ (L 0) (L 1) (L 2) (R 0) (R 1) (R 2)
/-- the code's right HLLC speed between two primitive state vectors -/
noncomputable def hllcSRv (γ : ℝ) (L R : ℕ → ℝ) : ℝ := C13f.hllcSR γ (L 0) (L 1) (L 2) (R 0) (R 1) (R 2)

/-- the ordered-speed condition of `C10e.hllc_step_adm` at one face: `sL < sM < sR` with the code's speeds -/
def HllcOrdered (γ : ℝ) (L R : ℕ → ℝ) : Prop :=
  hllcSLv γ L R < hllcSMv γ L R ∧ hllcSMv γ L R < hllcSRv γ L R

/-- **one cell, pipeline data**: conservative cell state `Q = (ρ, m, E)` with `ρ > 0`, `p > 0`, primitive neighbour
vectors `L`, `R` with `ρ > 0`, `p > 0`, ordered speeds at both faces and the face condition: the update with the code's
`eHllc` evaluated on `cons2prim` of the cell has positive density and pressure. -/
theorem hllc_cell_positive (γ ν : ℝ) (hγ : 1 < γ) (hν : 0 ≤ ν) (L R Q : ℕ → ℝ) (hL : PAdm L) (hR : PAdm R)
    (hQ : 0 < Q 0 ∧ 0 < ePressure γ (Q 0) (Q 1) (Q 2))
    (oL : HllcOrdered γ L (eulerC2P γ Q)) (oR : HllcOrdered γ (eulerC2P γ Q) R)
    (hcfl : ν * (max (hllcSRv γ L (eulerC2P γ Q)) 0 - min (hllcSLv γ (eulerC2P γ Q) R) 0) ≤ 1) :
    Adm (((Q 0, Q 1, Q 2) : ℝ × ℝ × ℝ) - ν •
      (eHllc γ (eulerC2P γ Q 0) (eulerC2P γ Q 1) (eulerC2P γ Q 2) (R 0) (R 1) (R 2)
        - eHllc γ (L 0) (L 1) (L 2) (eulerC2P γ Q 0) (eulerC2P γ Q 1) (eulerC2P γ Q 2))) := by
  have hg1 : γ - 1 ≠ 0 := by have : 0 < γ - 1 := by linarith
                             exact ne_of_gt this
  have hW : PAdm (eulerC2P γ Q) := hQ
  have h := C10e.hllc_step_adm γ ν (L 0) (L 1) (L 2) (eulerC2P γ Q 0) (eulerC2P γ Q 1) (eulerC2P γ Q 2)
    (R 0) (R 1) (R 2) hγ hν hL.1 hL.2 hW.1 hW.2 hR.1 hR.2 oR.1 oR.2 oL.1 oL.2 hcfl
  have ec : consOf γ (eulerC2P γ Q 0) (eulerC2P γ Q 1) (eulerC2P γ Q 2) = (Q 0, Q 1, Q 2) :=
    consOf_cons2prim γ hg1 (Q 0, Q 1, Q 2) hQ.1.ne'
  rw [ec] at h
  exact h

/-- cell `i` of `q + dt • r` as a conservative triple, for ANY residual `r` whose cell `i` is the HLLC flux difference
between the Riemann problems `(W, R)` and `(L, W)` divided by the cell volume -/
theorem hllc_update_triple (γ dt vol : ℝ) (q r : ℕ → ℕ → ℝ) (i : ℕ) (L W R : ℕ → ℝ)
    (h : ∀ k, r k i = -(eulerFluxV γ EulerFlux.hllc W R k - eulerFluxV γ EulerFlux.hllc L W k) / vol) :
    ((q + dt • r) 0 i, (q + dt • r) 1 i, (q + dt • r) 2 i)
      = ((q 0 i, q 1 i, q 2 i) : ℝ × ℝ × ℝ) - (dt / vol) •
        (eHllc γ (W 0) (W 1) (W 2) (R 0) (R 1) (R 2) - eHllc γ (L 0) (L 1) (L 2) (W 0) (W 1) (W 2)) := by
  simp only [Pi.add_apply, Pi.smul_apply, smul_eq_mul, h]
  simp only [eulerFluxV, vec3]
  refine Prod.ext ?_ (Prod.ext ?_ ?_) <;>
    simp only [Prod.fst_sub, Prod.snd_sub, Prod.smul_fst, Prod.smul_snd, smul_eq_mul] <;> ring

/-- **one cell of a forward-Euler step** with any residual that is the HLLC flux difference with neighbour vectors
`L`, `R` (the common core of the periodic and the open-end theorems) -/
theorem hllc_fe_cell (γ dt vol : ℝ) (hγ : 1 < γ) (hdt : 0 ≤ dt) (hvol : 0 < vol) (q r : ℕ → ℕ → ℝ) (i : ℕ)
    (L R : ℕ → ℝ) (hL : PAdm L) (hR : PAdm R)
    (hq : 0 < q 0 i ∧ 0 < ePressure γ (q 0 i) (q 1 i) (q 2 i))
    (h : ∀ k, r k i = -(eulerFluxV γ EulerFlux.hllc (eulerC2P γ (fun l => q l i)) R k
                          - eulerFluxV γ EulerFlux.hllc L (eulerC2P γ (fun l => q l i)) k) / vol)
    (oL : HllcOrdered γ L (eulerC2P γ (fun l => q l i))) (oR : HllcOrdered γ (eulerC2P γ (fun l => q l i)) R)
    (hcfl : dt / vol * (max (hllcSRv γ L (eulerC2P γ (fun l => q l i))) 0
              - min (hllcSLv γ (eulerC2P γ (fun l => q l i)) R) 0) ≤ 1) :
    0 < (q + dt • r) 0 i ∧ 0 < ePressure γ ((q + dt • r) 0 i) ((q + dt • r) 1 i) ((q + dt • r) 2 i) := by
  have hν : 0 ≤ dt / vol := div_nonneg hdt hvol.le
  have a := hllc_cell_positive γ (dt / vol) hγ hν L R (fun l => q l i) hL hR hq oL oR hcfl
  have e := hllc_update_triple γ dt vol q r i L (eulerC2P γ (fun l => q l i)) R h
  rw [← e] at a
  exact (adm_iff_pressure γ _ _ _ hγ a.1).mp a

/-! ## 1. the periodic pipeline -/

/-- the first-order periodic Euler discretisation with the `hllc` flux, as assembled by the code -/
noncomputable def eulerHllcDisc (γ : ℝ) (m : Mesh1D ℝ) : Disc1D ℝ ℕ :=
  fo1 m (eulerC2P γ) (eulerFluxV γ EulerFlux.hllc)

/-- primitive state vector of cell `c`, as the pipeline computes it -/
noncomputable def primV (γ : ℝ) (q : ℕ → ℕ → ℝ) (c : ℕ) : ℕ → ℝ := eulerC2P γ (fun l => q l c)

/-- `primV` is C10b's `ePrimAt` as a vector -/
theorem primV_eq (γ : ℝ) (q : ℕ → ℕ → ℝ) (c : ℕ) : primV γ q c = vec3 (ePrimAt γ q c) := rfl

/-- left / right state at face `f` of the periodic mesh (between cells `f-1` and `f`, cyclically) -/
noncomputable def faceL (γ : ℝ) (n : ℕ) (q : ℕ → ℕ → ℝ) (f : ℕ) : ℕ → ℝ := primV γ q ((f + n - 1) % n)
noncomputable def faceR (γ : ℝ) (n : ℕ) (q : ℕ → ℕ → ℝ) (f : ℕ) : ℕ → ℝ := primV γ q (f % n)

/-- the HLLC speeds the code computes at face `f` of the periodic mesh -/
noncomputable def hFaceSL (γ : ℝ) (n : ℕ) (q : ℕ → ℕ → ℝ) (f : ℕ) : ℝ := hllcSLv γ (faceL γ n q f) (faceR γ n q f)
noncomputable def hFaceSM (γ : ℝ) (n : ℕ) (q : ℕ → ℕ → ℝ) (f : ℕ) : ℝ := hllcSMv γ (faceL γ n q f) (faceR γ n q f)
noncomputable def hFaceSR (γ : ℝ) (n : ℕ) (q : ℕ → ℕ → ℝ) (f : ℕ) : ℝ := hllcSRv γ (faceL γ n q f) (faceR γ n q f)

/-- ordered speeds `sL < sM < sR` at every face `f < n` of the periodic mesh (face `n` is face `0`) -/
def HllcFaceOK (γ : ℝ) (n : ℕ) (q : ℕ → ℕ → ℝ) : Prop :=
  ∀ f, f < n → hFaceSL γ n q f < hFaceSM γ n q f ∧ hFaceSM γ n q f < hFaceSR γ n q f

/-- face condition of cell `i`: `dt/vol_i (max sR(face i) 0 - min sL(face i+1) 0) ≤ 1` with the code's HLLC speeds -/
def HllcFaceCFL (γ dt : ℝ) (m : Mesh1D ℝ) (q : ℕ → ℕ → ℝ) : Prop :=
  ∀ i, i < m.n → dt / m.vol i * (max (hFaceSR γ m.n q i) 0 - min (hFaceSL γ m.n q (i + 1)) 0) ≤ 1

theorem faceR_cell (γ : ℝ) (n : ℕ) (q : ℕ → ℕ → ℝ) (i : ℕ) (hi : i < n) : faceR γ n q i = primV γ q i := by
  unfold faceR; rw [Nat.mod_eq_of_lt hi]

theorem faceL_succ (γ : ℝ) (n : ℕ) (q : ℕ → ℕ → ℝ) (i : ℕ) (hi : i < n) : faceL γ n q (i + 1) = primV γ q i := by
  unfold faceL
  rw [show i + 1 + n - 1 = i + n by omega, Nat.add_mod_right, Nat.mod_eq_of_lt hi]

/-- face `n` is face `0` -/
theorem face_wrap (γ : ℝ) (n : ℕ) (hn : 0 < n) (q : ℕ → ℕ → ℝ) :
    faceL γ n q n = faceL γ n q 0 ∧ faceR γ n q n = faceR γ n q 0 := by
  unfold faceL faceR
  have e1 : (n + n - 1) % n = (0 + n - 1) % n := by
    rw [show n + n - 1 = (n - 1) + n by omega, Nat.add_mod_right, Nat.zero_add]
  rw [e1, Nat.mod_self, Nat.zero_mod]
  exact ⟨rfl, rfl⟩

/-- the ordered-speed condition at the right face `i + 1` of every cell `i < n` (which is face `0` for the last cell) -/
theorem HllcFaceOK.succ {γ : ℝ} {n : ℕ} {q : ℕ → ℕ → ℝ} (h : HllcFaceOK γ n q) (i : ℕ) (hi : i < n) :
    hFaceSL γ n q (i + 1) < hFaceSM γ n q (i + 1) ∧ hFaceSM γ n q (i + 1) < hFaceSR γ n q (i + 1) := by
  by_cases h1 : i + 1 < n
  · exact h (i + 1) h1
  · have e : i + 1 = n := by omega
    have hn : 0 < n := by omega
    obtain ⟨w1, w2⟩ := face_wrap γ n hn q
    have := h 0 hn
    unfold hFaceSL hFaceSM hFaceSR at this ⊢
    rw [e, w1, w2]
    exact this

/-- **Euler / HLLC on the pipeline, forward Euler**: first-order reconstruction, periodic ends, any mesh with positive
cell volumes.  If every cell has positive density and pressure, the code's three speeds are ordered at every face and
every cell satisfies the face condition, every cell of `q + dt • rhs q` has positive density and pressure. -/
theorem hllc_fe_positive (γ dt : ℝ) (hγ : 1 < γ) (hdt : 0 ≤ dt) (m : Mesh1D ℝ) (hn : 0 < m.n)
    (hvol : ∀ i, i < m.n → 0 < m.vol i) (q : ℕ → ℕ → ℝ) (hq : EAdmField γ m.n q)
    (hok : HllcFaceOK γ m.n q) (hcfl : HllcFaceCFL γ dt m q) :
    EAdmField γ m.n (q + dt • (eulerHllcDisc γ m).rhs q) := by
  intro i hi
  have hil : (i + m.n - 1) % m.n < m.n := Nat.mod_lt _ hn
  have hir : (i + 1) % m.n < m.n := Nat.mod_lt _ hn
  have hc := hcfl i hi
  have o1 := hok i hi
  have o2 := hok.succ i hi
  simp only [hFaceSL, hFaceSM, hFaceSR] at hc o1 o2
  rw [faceR_cell γ m.n q i hi] at hc o1
  rw [faceL_succ γ m.n q i hi] at hc o2
  have eR : faceR γ m.n q (i + 1) = primV γ q ((i + 1) % m.n) := rfl
  have eL : faceL γ m.n q i = primV γ q ((i + m.n - 1) % m.n) := rfl
  rw [eR] at hc o2
  rw [eL] at hc o1
  exact hllc_fe_cell γ dt (m.vol i) hγ hdt (hvol i hi) q _ i (primV γ q ((i + m.n - 1) % m.n))
    (primV γ q ((i + 1) % m.n)) (hq _ hil) (hq _ hir) (hq i hi)
    (fun k => fo1_rhs m _ _ hn q k i hi) o1 o2 hc

/-- the same on the uniform periodic mesh `uniMesh n L x0` (`dx = L/n`) -/
theorem hllc_uniform_fe_positive (γ dt L x0 : ℝ) (n : ℕ) (hγ : 1 < γ) (hdt : 0 ≤ dt) (hn : 0 < n) (hL : 0 < L)
    (q : ℕ → ℕ → ℝ) (hq : EAdmField γ n q) (hok : HllcFaceOK γ n q)
    (hcfl : ∀ i, i < n → dt / (L / n) * (max (hFaceSR γ n q i) 0 - min (hFaceSL γ n q (i + 1)) 0) ≤ 1) :
    EAdmField γ n (q + dt • (eulerHllcDisc γ (uniMesh n L x0)).rhs q) := by
  have hdx : 0 < L / (n : ℝ) := div_pos hL (Nat.cast_pos.mpr hn)
  refine hllc_fe_positive γ dt hγ hdt (uniMesh n L x0) hn (fun i _ => by rw [uni_vol]; exact hdx) q hq hok ?_
  intro i hi
  rw [uni_vol]
  exact hcfl i hi

/-! ## 2. SSP integrators and the `explicit` integrator (periodic) -/

/-- the step condition of the periodic HLLC theorems: ordered speeds at every face and the face condition -/
def HllcStepOK (γ dt : ℝ) (m : Mesh1D ℝ) (q : ℕ → ℕ → ℝ) : Prop := HllcFaceOK γ m.n q ∧ HllcFaceCFL γ dt m q

open Flowdyn.C05 Flowdyn.Gen in
/-- **Euler / HLLC, `rk2_heun`** (first order in space, periodic, any mesh): positivity of density and pressure is kept
if the ordered-speed and face conditions hold at both stage states `q` and `FE(q)`. -/
theorem hllc_rk2_heun_positive (γ dt t : ℝ) (hγ : 1 < γ) (hdt : 0 ≤ dt) (m : Mesh1D ℝ) (hn : 0 < m.n)
    (hvol : ∀ i, i < m.n → 0 < m.vol i) (q : ℕ → ℕ → ℝ) (hq : EAdmField γ m.n q)
    (c0 : HllcStepOK γ dt m q)
    (c1 : HllcStepOK γ dt m (fe (fun _ v => (eulerHllcDisc γ m).rhs v) dt t q)) :
    EAdmField γ m.n (rkStep (castT butcher_rk2_heun) (fun _ v => (eulerHllcDisc γ m).rhs v) dt t q).data :=
  ssp_rk2_heun_inv (EAdmField γ m.n) (HllcStepOK γ dt m) (eAdmField_add γ hγ m.n)
    (fun k x hk hx => eAdmField_smul γ hγ m.n k x hk hx) _ dt t q
    (fun _ v hv cv => hllc_fe_positive γ dt hγ hdt m hn hvol v hv cv.1 cv.2) hq c0 c1

open Flowdyn.C05 Flowdyn.Gen in
/-- **Euler / HLLC, `rk3ssp`**: the conditions are needed at the three Shu-Osher stage states. -/
theorem hllc_rk3ssp_positive (γ dt t : ℝ) (hγ : 1 < γ) (hdt : 0 ≤ dt) (m : Mesh1D ℝ) (hn : 0 < m.n)
    (hvol : ∀ i, i < m.n → 0 < m.vol i) (q : ℕ → ℕ → ℝ) (hq : EAdmField γ m.n q)
    (c0 : HllcStepOK γ dt m q)
    (c1 : HllcStepOK γ dt m (fe (fun _ v => (eulerHllcDisc γ m).rhs v) dt t q))
    (c2 : HllcStepOK γ dt m ((3/4 : ℝ) • q + (1/4 : ℝ) • fe (fun _ v => (eulerHllcDisc γ m).rhs v) dt (t + dt * 1)
            (fe (fun _ v => (eulerHllcDisc γ m).rhs v) dt t q))) :
    EAdmField γ m.n (rkStep (castT butcher_rk3ssp) (fun _ v => (eulerHllcDisc γ m).rhs v) dt t q).data :=
  ssp_rk3ssp_inv (EAdmField γ m.n) (HllcStepOK γ dt m) (eAdmField_add γ hγ m.n)
    (fun k x hk hx => eAdmField_smul γ hγ m.n k x hk hx) _ dt t q
    (fun _ v hv cv => hllc_fe_positive γ dt hγ hdt m hn hvol v hv cv.1 cv.2) hq c0 c1 c2

/-- Euler / HLLC with the model's `explicitStep` -/
theorem hllc_explicit_positive (γ dt t : ℝ) (hγ : 1 < γ) (hdt : 0 ≤ dt) (m : Mesh1D ℝ) (hn : 0 < m.n)
    (hvol : ∀ i, i < m.n → 0 < m.vol i) (q : ℕ → ℕ → ℝ) (hq : EAdmField γ m.n q)
    (hok : HllcFaceOK γ m.n q) (hcfl : HllcFaceCFL γ dt m q) :
    EAdmField γ m.n (explicitStep (fun _ v => (eulerHllcDisc γ m).rhs v) dt t q).data := by
  rw [(C05.explicit_step (fun _ v => (eulerHllcDisc γ m).rhs v) dt t q).2.1]
  exact hllc_fe_positive γ dt hγ hdt m hn hvol q hq hok hcfl

/-! ## 3. open ends: any admissibility-preserving boundary kernels, walls, named kernels -/

/-- the first-order Euler discretisation with the `hllc` flux and boundary kernels `lo`, `hi`, as assembled by the code -/
noncomputable def eulerHllcOpen (γ : ℝ) (m : Mesh1D ℝ) (lo hi : (ℕ → ℝ) → (ℕ → ℝ)) : Disc1D ℝ ℕ :=
  fo1Open m (eulerC2P γ) (eulerFluxV γ EulerFlux.hllc) lo hi

/-- slip walls (`sym`) at both ends -/
noncomputable def eulerHllcWalls (γ : ℝ) (m : Mesh1D ℝ) : Disc1D ℝ ℕ :=
  eulerHllcOpen γ m (eulerBC γ (-1) EulerBC.sym) (eulerBC γ 1 EulerBC.sym)

/-- step condition of cell-by-cell form with open ends: at the two faces of every cell the code's three speeds are
ordered, and `dt/vol_i (max sR(face i) 0 - min sL(face i+1) 0) ≤ 1`; at the end faces the outer state is the ghost
state produced by the boundary kernel (`C10.nbL`, `C10.nbR`) -/
def HllcStepOKOpen (γ dt : ℝ) (m : Mesh1D ℝ) (lo hi : (ℕ → ℝ) → (ℕ → ℝ)) (q : ℕ → ℕ → ℝ) : Prop :=
  ∀ i, i < m.n →
    HllcOrdered γ (nbL (eulerC2P γ) lo q i) (primV γ q i)
    ∧ HllcOrdered γ (primV γ q i) (nbR m.n (eulerC2P γ) hi q i)
    ∧ dt / m.vol i * (max (hllcSRv γ (nbL (eulerC2P γ) lo q i) (primV γ q i)) 0
        - min (hllcSLv γ (primV γ q i) (nbR m.n (eulerC2P γ) hi q i)) 0) ≤ 1

/-- the step condition between slip walls: the outer state at a wall face is the mirror state `(ρ, -u, p)` -/
def HllcStepOKWalls (γ dt : ℝ) (m : Mesh1D ℝ) (q : ℕ → ℕ → ℝ) : Prop :=
  HllcStepOKOpen γ dt m (eulerBC γ (-1) EulerBC.sym) (eulerBC γ 1 EulerBC.sym) q

/-- **Euler / HLLC on the pipeline with open ends, forward Euler**: first-order reconstruction, any mesh with positive
cell volumes, ANY boundary kernels `lo`, `hi` that map primitive states with `ρ > 0`, `p > 0` to such states. -/
theorem hllc_fe_positive_open (γ dt : ℝ) (hγ : 1 < γ) (hdt : 0 ≤ dt) (m : Mesh1D ℝ) (hn : 0 < m.n)
    (hvol : ∀ i, i < m.n → 0 < m.vol i) (lo hi : (ℕ → ℝ) → (ℕ → ℝ))
    (hlo : ∀ W, PAdm W → PAdm (lo W)) (hhi : ∀ W, PAdm W → PAdm (hi W))
    (q : ℕ → ℕ → ℝ) (hq : EAdmField γ m.n q) (hc : HllcStepOKOpen γ dt m lo hi q) :
    EAdmField γ m.n (q + dt • (eulerHllcOpen γ m lo hi).rhs q) := by
  intro i hi'
  obtain ⟨o1, o2, c⟩ := hc i hi'
  exact hllc_fe_cell γ dt (m.vol i) hγ hdt (hvol i hi') q _ i _ _
    (padm_nbL γ m.n hn lo hlo q hq i hi') (padm_nbR γ m.n hi hhi q hq i hi') (hq i hi')
    (fun k => fo1Open_rhs m _ _ lo hi hn q k i hi') o1 o2 c

/-- **Euler / HLLC between slip walls, forward Euler** -/
theorem hllc_fe_positive_walls (γ dt : ℝ) (hγ : 1 < γ) (hdt : 0 ≤ dt) (m : Mesh1D ℝ) (hn : 0 < m.n)
    (hvol : ∀ i, i < m.n → 0 < m.vol i) (q : ℕ → ℕ → ℝ) (hq : EAdmField γ m.n q)
    (hc : HllcStepOKWalls γ dt m q) :
    EAdmField γ m.n (q + dt • (eulerHllcWalls γ m).rhs q) :=
  hllc_fe_positive_open γ dt hγ hdt m hn hvol _ _ (eulerSym_padm γ (-1)) (eulerSym_padm γ 1) q hq hc

/-- any pair of C10c's named Euler boundary conditions (`dirichlet` admissible, `sym`, `outsup`, `outsub p > 0`) -/
theorem hllc_fe_positive_named (γ dt : ℝ) (hγ : 1 < γ) (hdt : 0 ≤ dt) (m : Mesh1D ℝ) (hn : 0 < m.n)
    (hvol : ∀ i, i < m.n → 0 < m.vol i) (bcL bcR : EulerBC ℝ) (hbcL : EulerBCAdm bcL) (hbcR : EulerBCAdm bcR)
    (q : ℕ → ℕ → ℝ) (hq : EAdmField γ m.n q)
    (hc : HllcStepOKOpen γ dt m (eulerBC γ (-1) bcL) (eulerBC γ 1 bcR) q) :
    EAdmField γ m.n (q + dt • (eulerHllcOpen γ m (eulerBC γ (-1) bcL) (eulerBC γ 1 bcR)).rhs q) :=
  hllc_fe_positive_open γ dt hγ hdt m hn hvol _ _ (eulerBC_padm γ (-1) bcL hbcL) (eulerBC_padm γ 1 bcR hbcR)
    q hq hc

/-- any pair of the ten named Euler boundary conditions with parameters as in `C10d.EulerBCAdm'` -/
theorem hllc_fe_positive_named' (γ dt : ℝ) (hγ : 1 < γ) (hdt : 0 ≤ dt) (m : Mesh1D ℝ) (hn : 0 < m.n)
    (hvol : ∀ i, i < m.n → 0 < m.vol i) (bcL bcR : EulerBC ℝ) (hbcL : C10d.EulerBCAdm' bcL)
    (hbcR : C10d.EulerBCAdm' bcR) (q : ℕ → ℕ → ℝ) (hq : EAdmField γ m.n q)
    (hc : HllcStepOKOpen γ dt m (eulerBC γ (-1) bcL) (eulerBC γ 1 bcR) q) :
    EAdmField γ m.n (q + dt • (eulerHllcOpen γ m (eulerBC γ (-1) bcL) (eulerBC γ 1 bcR)).rhs q) :=
  hllc_fe_positive_open γ dt hγ hdt m hn hvol _ _ (C10d.eulerBC_padm' γ (-1) hγ bcL hbcL)
    (C10d.eulerBC_padm' γ 1 hγ bcR hbcR) q hq hc

section ssp_open
open Flowdyn.C05 Flowdyn.Gen

/-- **Euler / HLLC, `rk2_heun`, open ends** -/
theorem hllc_rk2_heun_positive_open (γ dt t : ℝ) (hγ : 1 < γ) (hdt : 0 ≤ dt) (m : Mesh1D ℝ) (hn : 0 < m.n)
    (hvol : ∀ i, i < m.n → 0 < m.vol i) (lo hi : (ℕ → ℝ) → (ℕ → ℝ))
    (hlo : ∀ W, PAdm W → PAdm (lo W)) (hhi : ∀ W, PAdm W → PAdm (hi W))
    (q : ℕ → ℕ → ℝ) (hq : EAdmField γ m.n q) (c0 : HllcStepOKOpen γ dt m lo hi q)
    (c1 : HllcStepOKOpen γ dt m lo hi (fe (fun _ v => (eulerHllcOpen γ m lo hi).rhs v) dt t q)) :
    EAdmField γ m.n (rkStep (castT butcher_rk2_heun) (fun _ v => (eulerHllcOpen γ m lo hi).rhs v) dt t q).data :=
  ssp_rk2_heun_inv (EAdmField γ m.n) (HllcStepOKOpen γ dt m lo hi) (eAdmField_add γ hγ m.n)
    (fun k x hk hx => eAdmField_smul γ hγ m.n k x hk hx) _ dt t q
    (fun _ v hv cv => hllc_fe_positive_open γ dt hγ hdt m hn hvol lo hi hlo hhi v hv cv) hq c0 c1

/-- **Euler / HLLC, `rk3ssp`, open ends** -/
theorem hllc_rk3ssp_positive_open (γ dt t : ℝ) (hγ : 1 < γ) (hdt : 0 ≤ dt) (m : Mesh1D ℝ) (hn : 0 < m.n)
    (hvol : ∀ i, i < m.n → 0 < m.vol i) (lo hi : (ℕ → ℝ) → (ℕ → ℝ))
    (hlo : ∀ W, PAdm W → PAdm (lo W)) (hhi : ∀ W, PAdm W → PAdm (hi W))
    (q : ℕ → ℕ → ℝ) (hq : EAdmField γ m.n q) (c0 : HllcStepOKOpen γ dt m lo hi q)
    (c1 : HllcStepOKOpen γ dt m lo hi (fe (fun _ v => (eulerHllcOpen γ m lo hi).rhs v) dt t q))
    (c2 : HllcStepOKOpen γ dt m lo hi ((3/4 : ℝ) • q + (1/4 : ℝ) •
            fe (fun _ v => (eulerHllcOpen γ m lo hi).rhs v) dt (t + dt * 1)
              (fe (fun _ v => (eulerHllcOpen γ m lo hi).rhs v) dt t q))) :
    EAdmField γ m.n (rkStep (castT butcher_rk3ssp) (fun _ v => (eulerHllcOpen γ m lo hi).rhs v) dt t q).data :=
  ssp_rk3ssp_inv (EAdmField γ m.n) (HllcStepOKOpen γ dt m lo hi) (eAdmField_add γ hγ m.n)
    (fun k x hk hx => eAdmField_smul γ hγ m.n k x hk hx) _ dt t q
    (fun _ v hv cv => hllc_fe_positive_open γ dt hγ hdt m hn hvol lo hi hlo hhi v hv cv) hq c0 c1 c2

/-- Euler / HLLC with the model's `explicitStep`, open ends -/
theorem hllc_explicit_positive_open (γ dt t : ℝ) (hγ : 1 < γ) (hdt : 0 ≤ dt) (m : Mesh1D ℝ) (hn : 0 < m.n)
    (hvol : ∀ i, i < m.n → 0 < m.vol i) (lo hi : (ℕ → ℝ) → (ℕ → ℝ))
    (hlo : ∀ W, PAdm W → PAdm (lo W)) (hhi : ∀ W, PAdm W → PAdm (hi W))
    (q : ℕ → ℕ → ℝ) (hq : EAdmField γ m.n q) (hc : HllcStepOKOpen γ dt m lo hi q) :
    EAdmField γ m.n (explicitStep (fun _ v => (eulerHllcOpen γ m lo hi).rhs v) dt t q).data := by
  rw [(C05.explicit_step (fun _ v => (eulerHllcOpen γ m lo hi).rhs v) dt t q).2.1]
  exact hllc_fe_positive_open γ dt hγ hdt m hn hvol lo hi hlo hhi q hq hc

/-- **Euler / HLLC between slip walls, `rk2_heun`** -/
theorem hllc_rk2_heun_positive_walls (γ dt t : ℝ) (hγ : 1 < γ) (hdt : 0 ≤ dt) (m : Mesh1D ℝ) (hn : 0 < m.n)
    (hvol : ∀ i, i < m.n → 0 < m.vol i) (q : ℕ → ℕ → ℝ) (hq : EAdmField γ m.n q)
    (c0 : HllcStepOKWalls γ dt m q)
    (c1 : HllcStepOKWalls γ dt m (fe (fun _ v => (eulerHllcWalls γ m).rhs v) dt t q)) :
    EAdmField γ m.n (rkStep (castT butcher_rk2_heun) (fun _ v => (eulerHllcWalls γ m).rhs v) dt t q).data :=
  hllc_rk2_heun_positive_open γ dt t hγ hdt m hn hvol _ _ (eulerSym_padm γ (-1)) (eulerSym_padm γ 1) q hq c0 c1

/-- **Euler / HLLC between slip walls, `rk3ssp`** -/
theorem hllc_rk3ssp_positive_walls (γ dt t : ℝ) (hγ : 1 < γ) (hdt : 0 ≤ dt) (m : Mesh1D ℝ) (hn : 0 < m.n)
    (hvol : ∀ i, i < m.n → 0 < m.vol i) (q : ℕ → ℕ → ℝ) (hq : EAdmField γ m.n q)
    (c0 : HllcStepOKWalls γ dt m q)
    (c1 : HllcStepOKWalls γ dt m (fe (fun _ v => (eulerHllcWalls γ m).rhs v) dt t q))
    (c2 : HllcStepOKWalls γ dt m ((3/4 : ℝ) • q + (1/4 : ℝ) • fe (fun _ v => (eulerHllcWalls γ m).rhs v) dt (t + dt * 1)
            (fe (fun _ v => (eulerHllcWalls γ m).rhs v) dt t q))) :
    EAdmField γ m.n (rkStep (castT butcher_rk3ssp) (fun _ v => (eulerHllcWalls γ m).rhs v) dt t q).data :=
  hllc_rk3ssp_positive_open γ dt t hγ hdt m hn hvol _ _ (eulerSym_padm γ (-1)) (eulerSym_padm γ 1) q hq c0 c1 c2

/-- Euler / HLLC between slip walls with the model's `explicitStep` -/
theorem hllc_explicit_positive_walls (γ dt t : ℝ) (hγ : 1 < γ) (hdt : 0 ≤ dt) (m : Mesh1D ℝ) (hn : 0 < m.n)
    (hvol : ∀ i, i < m.n → 0 < m.vol i) (q : ℕ → ℕ → ℝ) (hq : EAdmField γ m.n q)
    (hc : HllcStepOKWalls γ dt m q) :
    EAdmField γ m.n (explicitStep (fun _ v => (eulerHllcWalls γ m).rhs v) dt t q).data :=
  hllc_explicit_positive_open γ dt t hγ hdt m hn hvol _ _ (eulerSym_padm γ (-1)) (eulerSym_padm γ 1) q hq hc

/-- `rk2_heun` with any pair of the ten named kernels (`C10d.EulerBCAdm'`) -/
theorem hllc_rk2_heun_positive_named' (γ dt t : ℝ) (hγ : 1 < γ) (hdt : 0 ≤ dt) (m : Mesh1D ℝ) (hn : 0 < m.n)
    (hvol : ∀ i, i < m.n → 0 < m.vol i) (bcL bcR : EulerBC ℝ) (hbcL : C10d.EulerBCAdm' bcL)
    (hbcR : C10d.EulerBCAdm' bcR) (q : ℕ → ℕ → ℝ) (hq : EAdmField γ m.n q)
    (c0 : HllcStepOKOpen γ dt m (eulerBC γ (-1) bcL) (eulerBC γ 1 bcR) q)
    (c1 : HllcStepOKOpen γ dt m (eulerBC γ (-1) bcL) (eulerBC γ 1 bcR)
            (fe (fun _ v => (eulerHllcOpen γ m (eulerBC γ (-1) bcL) (eulerBC γ 1 bcR)).rhs v) dt t q)) :
    EAdmField γ m.n (rkStep (castT butcher_rk2_heun)
      (fun _ v => (eulerHllcOpen γ m (eulerBC γ (-1) bcL) (eulerBC γ 1 bcR)).rhs v) dt t q).data :=
  hllc_rk2_heun_positive_open γ dt t hγ hdt m hn hvol _ _ (C10d.eulerBC_padm' γ (-1) hγ bcL hbcL)
    (C10d.eulerBC_padm' γ 1 hγ bcR hbcR) q hq c0 c1

/-- `rk3ssp` with any pair of the ten named kernels (`C10d.EulerBCAdm'`) -/
theorem hllc_rk3ssp_positive_named' (γ dt t : ℝ) (hγ : 1 < γ) (hdt : 0 ≤ dt) (m : Mesh1D ℝ) (hn : 0 < m.n)
    (hvol : ∀ i, i < m.n → 0 < m.vol i) (bcL bcR : EulerBC ℝ) (hbcL : C10d.EulerBCAdm' bcL)
    (hbcR : C10d.EulerBCAdm' bcR) (q : ℕ → ℕ → ℝ) (hq : EAdmField γ m.n q)
    (c0 : HllcStepOKOpen γ dt m (eulerBC γ (-1) bcL) (eulerBC γ 1 bcR) q)
    (c1 : HllcStepOKOpen γ dt m (eulerBC γ (-1) bcL) (eulerBC γ 1 bcR)
            (fe (fun _ v => (eulerHllcOpen γ m (eulerBC γ (-1) bcL) (eulerBC γ 1 bcR)).rhs v) dt t q))
    (c2 : HllcStepOKOpen γ dt m (eulerBC γ (-1) bcL) (eulerBC γ 1 bcR) ((3/4 : ℝ) • q + (1/4 : ℝ) •
            fe (fun _ v => (eulerHllcOpen γ m (eulerBC γ (-1) bcL) (eulerBC γ 1 bcR)).rhs v) dt (t + dt * 1)
              (fe (fun _ v => (eulerHllcOpen γ m (eulerBC γ (-1) bcL) (eulerBC γ 1 bcR)).rhs v) dt t q))) :
    EAdmField γ m.n (rkStep (castT butcher_rk3ssp)
      (fun _ v => (eulerHllcOpen γ m (eulerBC γ (-1) bcL) (eulerBC γ 1 bcR)).rhs v) dt t q).data :=
  hllc_rk3ssp_positive_open γ dt t hγ hdt m hn hvol _ _ (C10d.eulerBC_padm' γ (-1) hγ bcL hbcL)
    (C10d.eulerBC_padm' γ 1 hγ bcR hbcR) q hq c0 c1 c2

end ssp_open

/-! ## 4. the ordered-speed hypothesis made checkable -/

/-- **exact criterion** for `sL < sM < sR` at the code's speeds, for admissible states: two bounds on the pressure jump
(`C10e.sL_lt_contact_iff`, `C10e.contact_lt_sR_iff` at `sL = hllcSL`, `sR = hllcSR`) -/
theorem hllc_ordered_iff (γ rL uL pL rR uR pR : ℝ) (hγ : 1 < γ) (hrL : 0 < rL) (hpL : 0 < pL) (hrR : 0 < rR)
    (hpR : 0 < pR) :
    (C13f.hllcSL γ rL uL pL rR uR pR < C13f.hllcSM γ rL uL pL rR uR pR
      ∧ C13f.hllcSM γ rL uL pL rR uR pR < C13f.hllcSR γ rL uL pL rR uR pR)
    ↔ (pR - pL < rL * (uL - C13f.hllcSL γ rL uL pL rR uR pR) ^ 2
          + rR * (C13f.hllcSR γ rL uL pL rR uR pR - uR) * (uR - C13f.hllcSL γ rL uL pL rR uR pR)
       ∧ pL - pR < rR * (C13f.hllcSR γ rL uL pL rR uR pR - uR) ^ 2
          + rL * (uL - C13f.hllcSL γ rL uL pL rR uR pR) * (C13f.hllcSR γ rL uL pL rR uR pR - uL)) := by
  have hcL : 0 < Real.sqrt (γ * pL / rL) := Real.sqrt_pos.mpr (by positivity)
  have hcR : 0 < Real.sqrt (γ * pR / rR) := Real.sqrt_pos.mpr (by positivity)
  have a1 : C13f.hllcSL γ rL uL pL rR uR pR < uL := by linarith [C13f.hllcSL_le γ rL uL pL rR uR pR]
  have a2 : uR < C13f.hllcSR γ rL uL pL rR uR pR := by linarith [C13f.le_hllcSR γ rL uL pL rR uR pR]
  rw [C10e.hllcSM_eq_contact, C10e.sL_lt_contact_iff rL uL pL rR uR pR _ _ hrL hrR a1 a2,
    C10e.contact_lt_sR_iff rL uL pL rR uR pR _ _ hrL hrR a1 a2]

/-- the exact criterion on primitive state vectors -/
theorem hllcOrdered_iff (γ : ℝ) (hγ : 1 < γ) (L R : ℕ → ℝ) (hL : PAdm L) (hR : PAdm R) :
    HllcOrdered γ L R
    ↔ (R 2 - L 2 < L 0 * (L 1 - hllcSLv γ L R) ^ 2 + R 0 * (hllcSRv γ L R - R 1) * (R 1 - hllcSLv γ L R)
       ∧ L 2 - R 2 < R 0 * (hllcSRv γ L R - R 1) ^ 2 + L 0 * (L 1 - hllcSLv γ L R) * (hllcSRv γ L R - L 1)) :=
  hllc_ordered_iff γ (L 0) (L 1) (L 2) (R 0) (R 1) (R 2) hγ hL.1 hL.2 hR.1 hR.2

/-- **sufficient condition in terms of the pressure jump**: if the left acoustic speed `uL - cL` does not exceed `uR`,
`uL` does not exceed the right acoustic speed `uR + cR`, and the pressures satisfy `pR < (1+γ) pL`, `pL < (1+γ) pR`
(pressure ratio below `1 + γ` in either direction), the code's three speeds are ordered.
(`ρ_K (u_K - s_K)² ≥ ρ_K c_K² = γ p_K` by Einfeldt's bound; the cross terms are nonnegative.) -/
theorem hllc_ordered_of_pressure_jump (γ rL uL pL rR uR pR : ℝ) (hγ : 1 < γ) (hrL : 0 < rL) (hpL : 0 < pL)
    (hrR : 0 < rR) (hpR : 0 < pR)
    (hu1 : uL - Real.sqrt (γ * pL / rL) ≤ uR) (hu2 : uL ≤ uR + Real.sqrt (γ * pR / rR))
    (hp1 : pR < (1 + γ) * pL) (hp2 : pL < (1 + γ) * pR) :
    C13f.hllcSL γ rL uL pL rR uR pR < C13f.hllcSM γ rL uL pL rR uR pR
      ∧ C13f.hllcSM γ rL uL pL rR uR pR < C13f.hllcSR γ rL uL pL rR uR pR := by
  rw [hllc_ordered_iff γ rL uL pL rR uR pR hγ hrL hpL hrR hpR]
  have hL2 : 0 < γ * pL / rL := by positivity
  have hR2 : 0 < γ * pR / rR := by positivity
  have b1 := C13f.hllcSL_le γ rL uL pL rR uR pR
  have b2 := C13f.le_hllcSR γ rL uL pL rR uR pR
  generalize C13f.hllcSL γ rL uL pL rR uR pR = sL at b1 ⊢
  generalize C13f.hllcSR γ rL uL pL rR uR pR = sR at b2 ⊢
  have hcLsq : Real.sqrt (γ * pL / rL) ^ 2 = γ * pL / rL := Real.sq_sqrt hL2.le
  have hcRsq : Real.sqrt (γ * pR / rR) ^ 2 = γ * pR / rR := Real.sq_sqrt hR2.le
  have hcL : 0 < Real.sqrt (γ * pL / rL) := Real.sqrt_pos.mpr hL2
  have hcR : 0 < Real.sqrt (γ * pR / rR) := Real.sqrt_pos.mpr hR2
  generalize Real.sqrt (γ * pL / rL) = cL at *
  generalize Real.sqrt (γ * pR / rR) = cR at *
  have eL : rL * cL ^ 2 = γ * pL := by rw [hcLsq]; field_simp
  have eR : rR * cR ^ 2 = γ * pR := by rw [hcRsq]; field_simp
  have k1 : cL ^ 2 ≤ (uL - sL) ^ 2 := by nlinarith
  have k2 : cR ^ 2 ≤ (sR - uR) ^ 2 := by nlinarith
  have k1' : rL * cL ^ 2 ≤ rL * (uL - sL) ^ 2 := mul_le_mul_of_nonneg_left k1 hrL.le
  have k2' : rR * cR ^ 2 ≤ rR * (sR - uR) ^ 2 := mul_le_mul_of_nonneg_left k2 hrR.le
  have x1 : 0 ≤ rR * (sR - uR) * (uR - sL) :=
    mul_nonneg (mul_nonneg hrR.le (by linarith)) (by linarith)
  have x2 : 0 ≤ rL * (uL - sL) * (sR - uL) :=
    mul_nonneg (mul_nonneg hrL.le (by linarith)) (by linarith)
  constructor <;> nlinarith

/-- the sufficient condition on primitive state vectors -/
theorem hllcOrdered_of_pressure_jump (γ : ℝ) (hγ : 1 < γ) (L R : ℕ → ℝ) (hL : PAdm L) (hR : PAdm R)
    (hu1 : L 1 - Real.sqrt (γ * L 2 / L 0) ≤ R 1) (hu2 : L 1 ≤ R 1 + Real.sqrt (γ * R 2 / R 0))
    (hp1 : R 2 < (1 + γ) * L 2) (hp2 : L 2 < (1 + γ) * R 2) : HllcOrdered γ L R :=
  hllc_ordered_of_pressure_jump γ (L 0) (L 1) (L 2) (R 0) (R 1) (R 2) hγ hL.1 hL.2 hR.1 hR.2 hu1 hu2 hp1 hp2

/-- **non-vacuity of the ordered-speed hypothesis**: between two equal admissible states (uniform flow) the code's
speeds are always ordered, `sL < sM < sR` -/
theorem hllcOrdered_self (γ : ℝ) (hγ : 1 < γ) (W : ℕ → ℝ) (hW : PAdm W) : HllcOrdered γ W W := by
  have hc : 0 ≤ Real.sqrt (γ * W 2 / W 0) := Real.sqrt_nonneg _
  have hp : W 2 < (1 + γ) * W 2 := by nlinarith [hW.2]
  exact hllcOrdered_of_pressure_jump γ hγ W W hW hW (by linarith) (by linarith) hp hp

/-- the sufficient condition at every face of the periodic mesh gives `HllcFaceOK` -/
theorem hllcFaceOK_of_pressure_jump (γ : ℝ) (hγ : 1 < γ) (n : ℕ) (hn : 0 < n) (q : ℕ → ℕ → ℝ) (hq : EAdmField γ n q)
    (h : ∀ f, f < n →
      faceL γ n q f 1 - Real.sqrt (γ * faceL γ n q f 2 / faceL γ n q f 0) ≤ faceR γ n q f 1
      ∧ faceL γ n q f 1 ≤ faceR γ n q f 1 + Real.sqrt (γ * faceR γ n q f 2 / faceR γ n q f 0)
      ∧ faceR γ n q f 2 < (1 + γ) * faceL γ n q f 2 ∧ faceL γ n q f 2 < (1 + γ) * faceR γ n q f 2) :
    HllcFaceOK γ n q := by
  intro f hf
  obtain ⟨h1, h2, h3, h4⟩ := h f hf
  exact hllcOrdered_of_pressure_jump γ hγ _ _ (hq _ (Nat.mod_lt _ hn)) (hq _ (Nat.mod_lt _ hn)) h1 h2 h3 h4

/-- a uniform periodic field satisfies `HllcFaceOK` -/
theorem hllcFaceOK_uniform (γ : ℝ) (hγ : 1 < γ) (n : ℕ) (hn : 0 < n) (q : ℕ → ℕ → ℝ) (hq : EAdmField γ n q)
    (hu : ∀ l i j, i < n → j < n → q l i = q l j) : HllcFaceOK γ n q := by
  intro f hf
  have e : faceL γ n q f = faceR γ n q f := by
    unfold faceL faceR primV
    rw [show (fun l => q l ((f + n - 1) % n)) = (fun l => q l (f % n)) from
      funext fun l => hu l _ _ (Nat.mod_lt _ hn) (Nat.mod_lt _ hn)]
  have := hllcOrdered_self γ hγ (faceR γ n q f) (hq _ (Nat.mod_lt _ hn))
  unfold hFaceSL hFaceSM hFaceSR
  rw [e]
  exact this

/-! ## 5. non-vacuity -/

section examples
open Flowdyn.C05 Flowdyn.Gen

theorem exEuler_prim0 : primV (7/5) exEuler 0 = vec3 (7/5, 1/2, 49) := by
  unfold primV eulerC2P
  congr 1
  norm_num [exEuler, eCons2prim, ePressure, eKinetic]

theorem exEuler_prim1 : primV (7/5) exEuler 1 = vec3 (7/5, 1/2, 1) := by
  unfold primV eulerC2P
  congr 1
  norm_num [exEuler, eCons2prim, ePressure, eKinetic]

/-- the code's HLLC speeds on C10b's two-cell data (`p = 49` next to `p = 1`, Roe sound speed 5): face 0 (cells 1 | 0)
`sL = -9/2`, `sR = 15/2`; face 1 (cells 0 | 1) `sL = -13/2`, `sR = 11/2` -/
theorem exEuler_speeds :
    C13f.hllcSL (7/5) (7/5) (1/2) 1 (7/5) (1/2) 49 = -9/2 ∧ C13f.hllcSR (7/5) (7/5) (1/2) 1 (7/5) (1/2) 49 = 15/2
    ∧ C13f.hllcSL (7/5) (7/5) (1/2) 49 (7/5) (1/2) 1 = -13/2
    ∧ C13f.hllcSR (7/5) (7/5) (1/2) 49 (7/5) (1/2) 1 = 11/2 := by
  refine ⟨?_, ?_, ?_, ?_⟩ <;>
    (simp only [C13f.hllcSL, C13f.hllcSR, C13f.hllcRoe, eRoe, HasSqrt.sqrt_real]; norm_num)

/-- ordered speeds at both faces of the non-uniform two-cell field (pressure ratio 49: the sufficient condition
`hllcOrdered_of_pressure_jump` does not apply, the exact criterion `hllcOrdered_iff` does) -/
theorem exEuler_ok : HllcFaceOK (7/5) 2 exEuler := by
  obtain ⟨s1, s2, s3, s4⟩ := exEuler_speeds
  intro f hf
  have key : ∀ L R : ℕ → ℝ, PAdm L → PAdm R → HllcOrdered (7/5) L R →
      hllcSLv (7/5) L R < hllcSMv (7/5) L R ∧ hllcSMv (7/5) L R < hllcSRv (7/5) L R := fun _ _ _ _ h => h
  unfold hFaceSL hFaceSM hFaceSR faceL faceR
  interval_cases f
  · rw [show (0 + 2 - 1) % 2 = 1 from rfl, show 0 % 2 = 0 from rfl, exEuler_prim0, exEuler_prim1]
    refine (hllcOrdered_iff (7/5) (by norm_num) _ _ ?_ ?_).mpr ?_
    · norm_num [PAdm, vec3]
    · norm_num [PAdm, vec3]
    · simp only [hllcSLv, hllcSRv, vec3, s1, s2]; norm_num
  · rw [show (1 + 2 - 1) % 2 = 0 from rfl, show 1 % 2 = 1 from rfl, exEuler_prim0, exEuler_prim1]
    refine (hllcOrdered_iff (7/5) (by norm_num) _ _ ?_ ?_).mpr ?_
    · norm_num [PAdm, vec3]
    · norm_num [PAdm, vec3]
    · simp only [hllcSLv, hllcSRv, vec3, s3, s4]; norm_num

/-- `dt/dx = 1/14`: equality in the face condition of cell 0 (`15/2 + 13/2 = 14`) -/
theorem exEuler_hcfl : HllcFaceCFL (7/5) (1/28) (uniMesh 2 1 0) exEuler := by
  obtain ⟨s1, s2, s3, s4⟩ := exEuler_speeds
  intro i hi
  change i < 2 at hi
  rw [uni_vol]
  change _ * (max (hFaceSR (7/5) 2 exEuler i) 0 - min (hFaceSL (7/5) 2 exEuler (i + 1)) 0) ≤ 1
  unfold hFaceSL hFaceSR faceL faceR
  interval_cases i
  · norm_num only
    rw [exEuler_prim0, exEuler_prim1]
    simp only [hllcSLv, hllcSRv, vec3, s2, s3]; norm_num
  · norm_num only
    rw [exEuler_prim0, exEuler_prim1]
    simp only [hllcSLv, hllcSRv, vec3, s1, s4]; norm_num

/-- non-vacuity of `hllc_fe_positive` (non-uniform data, pressure ratio 49, `dt > 0`) -/
example : EAdmField (7/5) 2 (exEuler + (1/28 : ℝ) • (eulerHllcDisc (7/5) (uniMesh 2 1 0)).rhs exEuler) :=
  hllc_fe_positive (7/5) (1/28) (by norm_num) (by norm_num) (uniMesh 2 1 0) (by decide)
    (fun i _ => by rw [uni_vol]; norm_num) exEuler exEuler_adm exEuler_ok exEuler_hcfl

/-- non-vacuity of `hllc_explicit_positive` on the same data -/
example (t : ℝ) : EAdmField (7/5) 2
    (explicitStep (fun _ v => (eulerHllcDisc (7/5) (uniMesh 2 1 0)).rhs v) (1/28) t exEuler).data :=
  hllc_explicit_positive (7/5) (1/28) t (by norm_num) (by norm_num) (uniMesh 2 1 0) (by decide)
    (fun i _ => by rw [uni_vol]; norm_num) exEuler exEuler_adm exEuler_ok exEuler_hcfl

theorem primV_congr (γ : ℝ) (q q' : ℕ → ℕ → ℝ) (c : ℕ) (h : ∀ k, q k c = q' k c) : primV γ q c = primV γ q' c := by
  unfold primV; rw [show (fun l => q l c) = (fun l => q' l c) from funext h]

/-- the periodic step condition only sees the cells `< n` -/
theorem hllcStepOK_congr (γ dt : ℝ) (m : Mesh1D ℝ) (hn : 0 < m.n) (q q' : ℕ → ℕ → ℝ)
    (h : ∀ k c, c < m.n → q k c = q' k c) (H : HllcStepOK γ dt m q) : HllcStepOK γ dt m q' := by
  have eL : ∀ f, faceL γ m.n q f = faceL γ m.n q' f := fun f =>
    primV_congr γ q q' _ (fun k => h k _ (Nat.mod_lt _ hn))
  have eR : ∀ f, faceR γ m.n q f = faceR γ m.n q' f := fun f =>
    primV_congr γ q q' _ (fun k => h k _ (Nat.mod_lt _ hn))
  obtain ⟨H1, H2⟩ := H
  refine ⟨fun f hf => ?_, fun i hi => ?_⟩
  · have := H1 f hf
    simp only [hFaceSL, hFaceSM, hFaceSR, eL, eR] at this ⊢
    exact this
  · have := H2 i hi
    simp only [hFaceSL, hFaceSR, eL, eR] at this ⊢
    exact this

theorem exEulerU_prim (c : ℕ) : primV (7/5) exEulerU c = vec3 (7/5, 1/2, 1) := by
  unfold primV eulerC2P
  congr 1
  norm_num [exEulerU, eCons2prim, ePressure, eKinetic]

/-- uniform flow `(7/5, 1/2, 1)`: HLLC speeds `sL = -1/2`, `sR = 3/2`, `dt/dx = 1/2`: equality in the face condition -/
theorem exEulerU_ok : HllcStepOK (7/5) (1/4) (uniMesh 2 1 0) exEulerU := by
  refine ⟨hllcFaceOK_uniform (7/5) (by norm_num) 2 (by norm_num) exEulerU exEulerU_adm (fun _ _ _ _ _ => rfl), ?_⟩
  have s1 : C13f.hllcSR (7/5) (7/5) (1/2) 1 (7/5) (1/2) 1 = 3/2 := by
    simp only [C13f.hllcSR, C13f.hllcRoe, eRoe, HasSqrt.sqrt_real]; norm_num
  have s2 : C13f.hllcSL (7/5) (7/5) (1/2) 1 (7/5) (1/2) 1 = -1/2 := by
    simp only [C13f.hllcSL, C13f.hllcRoe, eRoe, HasSqrt.sqrt_real]; norm_num
  intro i _
  rw [uni_vol]
  simp only [hFaceSL, hFaceSR, faceL, faceR, exEulerU_prim, hllcSLv, hllcSRv, vec3, s1, s2]
  norm_num

/-- non-vacuity of `hllc_rk2_heun_positive` and `hllc_rk3ssp_positive`: all stage conditions hold (uniform state,
`dt > 0`; with non-uniform data the stage states have irrational Roe speeds, not attempted) -/
example (t : ℝ) :
    EAdmField (7/5) 2 (rkStep (castT butcher_rk2_heun)
      (fun _ v => (eulerHllcDisc (7/5) (uniMesh 2 1 0)).rhs v) (1/4) t exEulerU).data
    ∧ EAdmField (7/5) 2 (rkStep (castT butcher_rk3ssp)
      (fun _ v => (eulerHllcDisc (7/5) (uniMesh 2 1 0)).rhs v) (1/4) t exEulerU).data := by
  have hu : ∀ l i j, i < (uniMesh 2 (1:ℝ) 0).n → j < (uniMesh 2 (1:ℝ) 0).n → exEulerU l i = exEulerU l j :=
    fun _ _ _ _ _ => rfl
  have e1 : ∀ (s : ℝ) (k c : ℕ), c < (uniMesh 2 (1:ℝ) 0).n →
      fe (fun _ v => (eulerHllcDisc (7/5) (uniMesh 2 1 0)).rhs v) (1/4 : ℝ) s exEulerU k c = exEulerU k c :=
    fun s k c hc => fe_fo1_const _ _ _ (by decide) _ s _ hu k c hc
  have e2 : ∀ (s s' : ℝ) (k c : ℕ), c < (uniMesh 2 (1:ℝ) 0).n →
      fe (fun _ v => (eulerHllcDisc (7/5) (uniMesh 2 1 0)).rhs v) (1/4 : ℝ) s'
        (fe (fun _ v => (eulerHllcDisc (7/5) (uniMesh 2 1 0)).rhs v) (1/4 : ℝ) s exEulerU) k c = exEulerU k c := by
    intro s s' k c hc
    rw [show eulerHllcDisc (7/5) (uniMesh 2 1 0) = fo1 _ _ _ from rfl,
      fe_fo1_const _ _ _ (by decide) _ s' _ (fun l i j hi hj => ?_) k c hc]
    · exact e1 s k c hc
    · exact (e1 s l i hi).trans (e1 s l j hj).symm
  have c1 := hllcStepOK_congr (7/5) (1/4) (uniMesh 2 1 0) (by decide) _ _ (fun k c hc => (e1 t k c hc).symm) exEulerU_ok
  have c2 := hllcStepOK_congr (7/5) (1/4) (uniMesh 2 1 0) (by decide) exEulerU
    ((3/4 : ℝ) • exEulerU + (1/4 : ℝ) • fe (fun _ v => (eulerHllcDisc (7/5) (uniMesh 2 1 0)).rhs v) (1/4) (t + 1/4 * 1)
      (fe (fun _ v => (eulerHllcDisc (7/5) (uniMesh 2 1 0)).rhs v) (1/4) t exEulerU))
    (fun k c hc => by
      simp only [Pi.add_apply, Pi.smul_apply, smul_eq_mul, e2 t _ k c hc]; ring) exEulerU_ok
  exact ⟨hllc_rk2_heun_positive (7/5) (1/4) t (by norm_num) (by norm_num) (uniMesh 2 1 0) (by decide)
      (fun i _ => by rw [uni_vol]; norm_num) exEulerU exEulerU_adm exEulerU_ok c1,
    hllc_rk3ssp_positive (7/5) (1/4) t (by norm_num) (by norm_num) (uniMesh 2 1 0) (by decide)
      (fun i _ => by rw [uni_vol]; norm_num) exEulerU exEulerU_adm exEulerU_ok c1 c2⟩

/-- gas at rest between slip walls (C10c's `exEulerR`, three cells): every face, wall faces included, sees two equal
states; speeds `sL = -1`, `sR = 1`, `dt/dx = 1/2`: equality in the face condition -/
theorem exEulerR_ok : HllcStepOKWalls (7/5) (1/6) (uniMesh 3 1 0) exEulerR := by
  have s1 : C13f.hllcSR (7/5) (7/5) 0 1 (7/5) 0 1 = 1 := by
    simp only [C13f.hllcSR, C13f.hllcRoe, eRoe, HasSqrt.sqrt_real]; norm_num
  have s2 : C13f.hllcSL (7/5) (7/5) 0 1 (7/5) 0 1 = -1 := by
    simp only [C13f.hllcSL, C13f.hllcRoe, eRoe, HasSqrt.sqrt_real]; norm_num
  have hnn : (uniMesh 3 (1:ℝ) 0).n = 3 := rfl
  have hW : PAdm (vec3 ((7/5 : ℝ), 0, 1)) := by norm_num [PAdm, vec3]
  have ho := hllcOrdered_self (7/5) (by norm_num) _ hW
  intro i hi'
  rw [hnn] at hi'
  rw [uni_vol]
  unfold nbL nbR primV
  simp only [exEulerR_prim, hnn, eulerSym_rest]
  refine ⟨by split_ifs <;> exact ho, by split_ifs <;> exact ho, ?_⟩
  interval_cases i <;> norm_num [hllcSLv, hllcSRv, vec3, s1, s2]

/-- non-vacuity of `hllc_fe_positive_walls` / `hllc_explicit_positive_walls` (gas at rest, `dt > 0`, three cells) -/
example (t : ℝ) :
    EAdmField (7/5) 3 (exEulerR + (1/6 : ℝ) • (eulerHllcWalls (7/5) (uniMesh 3 1 0)).rhs exEulerR)
    ∧ EAdmField (7/5) 3
        (explicitStep (fun _ v => (eulerHllcWalls (7/5) (uniMesh 3 1 0)).rhs v) (1/6) t exEulerR).data :=
  ⟨hllc_fe_positive_walls (7/5) (1/6) (by norm_num) (by norm_num) (uniMesh 3 1 0) (by decide)
      (fun i _ => by rw [uni_vol]; norm_num) exEulerR exEulerR_adm exEulerR_ok,
   hllc_explicit_positive_walls (7/5) (1/6) t (by norm_num) (by norm_num) (uniMesh 3 1 0) (by decide)
      (fun i _ => by rw [uni_vol]; norm_num) exEulerR exEulerR_adm exEulerR_ok⟩

end examples

end Flowdyn.C10f
