/-
C13 (part f) — reflection of the 1D operator with the HLLC flux.

Recorded gap: the Euler instantiation of the hypotheses of `C13.rhs_mirror` (`eulerBC_mirror`, `eulerC2P_mirror`,
`eulerFlux_mirror`) excludes HLLC, because `rhs_mirror` asks for the mirror law of the flux at ALL pairs of states
while the HLLC law (`C02.eHllc_mirror`) is proved for admissible pairs with contact speed `sM ≠ 0` only.

(1) `rhs_mirror_at` / `rhs_mirror_on`: the operator-level theorem with the flux law required only at the face states
    actually met (the two faces of the cell / all faces `f ≤ n` of the given data).  `C13.rhs_mirror` is the special case.
(2) `hllcSL`, `hllcSR`, `hllcSM`: the wave-speed estimates of `eHllc` as named definitions (`eHllc_eq_core`, `hllcSM_eq`:
    `rfl`; `eHllc_fst`: the mass flux of `eHllc` written with them); `euler_hllc_rhs_mirror`: the Euler/HLLC instantiation
    for data with admissible face states and `sM ≠ 0` at every face; `euler_rhs_mirror`: the other fluxes;
    `mirrorDisc_euler`: the mirror problem is the Euler problem with the registered boundary conditions exchanged.
(3) what happens at `sM = 0`: the tie rule `0 ≤ sM` of the code selects the LEFT star flux in the problem and in the mirror
    problem.  If the outer waves straddle the face (`sL < 0 < sR`) both star fluxes are `(0, p*, 0)` at `sM = 0` and the
    law still holds (`eHllc_mirror_straddle`, `eHllc_mirror_weak`; e.g. the symmetric collision, `eHllc_mirror_collision`);
    the strengthened operator statement is `euler_hllc_rhs_mirror_weak`.  If `sM = 0` with `0 ≤ sL` (and `0 < sR`) the
    problem returns the upwind flux `F(L)` and the mirror problem the star flux: the law FAILS (`eHllc_mirror_fails`), and
    this set is not empty for `γ` close to 1: `eHllc_mirror_counterexample` (`γ = 77/72`, rational states, all square roots
    exact).  So the hypothesis of `C02.eHllc_mirror` cannot be dropped for all `γ > 1`, only weakened.
    (Numerically — not proved here — `sL ≤ sM` always holds for `γ ≥ 1.2`, in particular `γ = 7/5`, `5/3`: there the failure
    set `sM = 0 ≤ sL` appears to be empty; violations of `sL ≤ sM` were found for `γ ≤ 1.1` only.)
(4) a concrete periodic two-cell configuration meeting all hypotheses (`example` at the end).
-/
import Flowdyn.Props.C13c
import Flowdyn.Props.C02b
import Mathlib.Tactic.Ring
import Mathlib.Tactic.Linarith
import Mathlib.Tactic.FieldSimp
import Mathlib.Tactic.Positivity
import Mathlib.Tactic.NormNum
import Mathlib.Tactic.LinearCombination
import Mathlib.Tactic.IntervalCases

namespace Flowdyn.C13f
open Flowdyn Flowdyn.C13

/-! ## (1) the mirror theorem with the flux law at the face states met -/
section general
variable {α : Type} [Field α] {ι : Type}

/-- the mirror law of the numerical flux of `D` at the pair of face states of the data `q` at face `f` -/
def FluxMirrorAt (σ : ι → α) (D : Disc1D α ι) (q : ι → ℕ → α) (f : ℕ) : Prop :=
  ∀ k, D.flux (sig σ (fun j => D.pR q j f)) (sig σ (fun j => D.pL q j f)) k
        = -σ k * D.flux (fun j => D.pL q j f) (fun j => D.pR q j f) k

/-- a flux obeying the law at all pairs obeys it at the face states -/
theorem fluxMirrorAt_of_all (σ : ι → α) (D : Disc1D α ι)
    (hflux : ∀ L R k, D.flux (sig σ R) (sig σ L) k = -σ k * D.flux L R k) (q : ι → ℕ → α) (f : ℕ) :
    FluxMirrorAt σ D q f := fun k => hflux _ _ k

/-- face fluxes of the mirror problem: face `f` of the mirror problem is face `n - f` of the problem; only the law at
that face is used -/
theorem faceFluxes_mirror_at (σ : ι → α) (hσ : ∀ k, σ k * σ k = 1) (D : Disc1D α ι) (hs : OddScheme D.scheme)
    (hc2p : ∀ Q, D.c2p (sig σ Q) = sig σ (D.c2p Q)) (hn : 0 < D.mesh.n) (q : ι → ℕ → α) (f : ℕ)
    (hf : f ≤ D.mesh.n) (hflux : FluxMirrorAt σ D q (D.mesh.n - f)) (k : ι) :
    (mirrorDisc σ D).faceFluxes (mirrorData σ D.mesh.n q) k f = -σ k * D.faceFluxes q k (D.mesh.n - f) := by
  unfold Disc1D.faceFluxes faceFlux
  have eL : (fun j => (mirrorDisc σ D).pL (mirrorData σ D.mesh.n q) j f)
      = sig σ (fun j => D.pR q j (D.mesh.n - f)) := by
    funext j; exact (faces_mirror σ hσ D hs hc2p hn q j f hf).1
  have eR : (fun j => (mirrorDisc σ D).pR (mirrorData σ D.mesh.n q) j f)
      = sig σ (fun j => D.pL q j (D.mesh.n - f)) := by
    funext j; exact (faces_mirror σ hσ D hs hc2p hn q j f hf).2
  rw [eL, eR]
  exact hflux k

/-- **reflection equivariance, cell by cell**: the residual of cell `i` of the mirror problem is the mirrored residual of
cell `n-1-i`, as soon as the flux obeys the mirror law at the face states of the two faces `n-1-i`, `n-i` of that cell -/
theorem rhs_mirror_at (σ : ι → α) (hσ : ∀ k, σ k * σ k = 1) (D : Disc1D α ι) (hsrc : ∀ k, D.src k = none)
    (hs : OddScheme D.scheme) (hc2p : ∀ Q, D.c2p (sig σ Q) = sig σ (D.c2p Q))
    (hn : 0 < D.mesh.n) (q : ι → ℕ → α) (i : ℕ) (hi : i < D.mesh.n)
    (hfl0 : FluxMirrorAt σ D q (D.mesh.n - 1 - i)) (hfl1 : FluxMirrorAt σ D q (D.mesh.n - 1 - i + 1)) (k : ι) :
    (mirrorDisc σ D).rhs (mirrorData σ D.mesh.n q) k i = σ k * D.rhs q k (D.mesh.n - 1 - i) := by
  have e1 : D.mesh.n - i = D.mesh.n - 1 - i + 1 := by omega
  have e2 : D.mesh.n - (i + 1) = D.mesh.n - 1 - i := by omega
  have hF1 := faceFluxes_mirror_at σ hσ D hs hc2p hn q (i + 1) (by omega) (by rw [e2]; exact hfl0) k
  have hF0 := faceFluxes_mirror_at σ hσ D hs hc2p hn q i (by omega) (by rw [e1]; exact hfl1) k
  have h1 : (mirrorDisc σ D).rhs (mirrorData σ D.mesh.n q) k i
      = (mirrorDisc σ D).resNoSrc (mirrorData σ D.mesh.n q) k i := rfl
  have h2 : D.rhs q k (D.mesh.n - 1 - i) = D.resNoSrc q k (D.mesh.n - 1 - i) := by
    simp only [Disc1D.rhs, addSource, hsrc k]
  rw [h1, h2]
  unfold Disc1D.resNoSrc calcRes
  have hv : (mirrorDisc σ D).mesh.vol i = D.mesh.vol (D.mesh.n - 1 - i) := vol_mirror D.mesh i hi
  rw [hv, hF1, hF0, e1, e2, ← mul_div_assoc]
  congr 1; ring

/-- **reflection equivariance of the space operator, flux law at the faces met**: any mesh, any reconstruction with an
odd limiter, any boundary kernels, `n ≥ 1`; the flux has to obey the mirror law only at the pairs
`(pL f, pR f)`, `f ≤ n`, of face states (reconstructed / boundary) of the data `q` -/
theorem rhs_mirror_on (σ : ι → α) (hσ : ∀ k, σ k * σ k = 1) (D : Disc1D α ι) (hsrc : ∀ k, D.src k = none)
    (hs : OddScheme D.scheme) (hc2p : ∀ Q, D.c2p (sig σ Q) = sig σ (D.c2p Q))
    (hn : 0 < D.mesh.n) (q : ι → ℕ → α)
    (hflux : ∀ f, f ≤ D.mesh.n → FluxMirrorAt σ D q f)
    (k : ι) (i : ℕ) (hi : i < D.mesh.n) :
    (mirrorDisc σ D).rhs (mirrorData σ D.mesh.n q) k i = σ k * D.rhs q k (D.mesh.n - 1 - i) :=
  rhs_mirror_at σ hσ D hsrc hs hc2p hn q i hi (hflux _ (by omega)) (hflux _ (by omega)) k

/-- `C13.rhs_mirror` is the special case of a flux obeying the law at all pairs -/
example (σ : ι → α) (hσ : ∀ k, σ k * σ k = 1) (D : Disc1D α ι) (hsrc : ∀ k, D.src k = none)
    (hs : OddScheme D.scheme) (hc2p : ∀ Q, D.c2p (sig σ Q) = sig σ (D.c2p Q))
    (hflux : ∀ L R k, D.flux (sig σ R) (sig σ L) k = -σ k * D.flux L R k)
    (hn : 0 < D.mesh.n) (q : ι → ℕ → α) (k : ι) (i : ℕ) (hi : i < D.mesh.n) :
    (mirrorDisc σ D).rhs (mirrorData σ D.mesh.n q) k i = σ k * D.rhs q k (D.mesh.n - 1 - i) :=
  rhs_mirror_on σ hσ D hsrc hs hc2p hn q (fun f _ => fluxMirrorAt_of_all σ D hflux q f) k i hi

end general

/-! ## (2) the wave speeds of `eHllc` as named definitions -/

/-- the Roe average `(uRoe, cRoe)` used by `eHllc` -/
noncomputable def hllcRoe (γ rL uL pL rR uR pR : ℝ) : ℝ × ℝ :=
  eRoe γ rL uL (γ * pL / rL / (γ - 1) + 1/2 * uL ^ 2) rR uR (γ * pR / rR / (γ - 1) + 1/2 * uR ^ 2)

/-- the left wave speed `sL` of `eHllc` -/
noncomputable def hllcSL (γ rL uL pL rR uR pR : ℝ) : ℝ :=
  min ((hllcRoe γ rL uL pL rR uR pR).1 - (hllcRoe γ rL uL pL rR uR pR).2) (uL - Real.sqrt (γ * pL / rL))

/-- the right wave speed `sR` of `eHllc` -/
noncomputable def hllcSR (γ rL uL pL rR uR pR : ℝ) : ℝ :=
  max ((hllcRoe γ rL uL pL rR uR pR).1 + (hllcRoe γ rL uL pL rR uR pR).2) (uR + Real.sqrt (γ * pR / rR))

/-- the contact speed `sM` of `eHllc` -/
noncomputable def hllcSM (γ rL uL pL rR uR pR : ℝ) : ℝ :=
  (pL - pR - rL * uL * (hllcSL γ rL uL pL rR uR pR - uL) + rR * uR * (hllcSR γ rL uL pL rR uR pR - uR))
    / (rR * (hllcSR γ rL uL pL rR uR pR - uR) - rL * (hllcSL γ rL uL pL rR uR pR - uL))

/-- `eHllc` is `C02.hllcCore` (everything after the wave-speed estimates) at the wave speeds `hllcSL`, `hllcSR` -/
theorem eHllc_eq_core (γ rL uL pL rR uR pR : ℝ) :
    eHllc γ rL uL pL rR uR pR =
      C02.hllcCore rL uL pL (γ * pL / rL / (γ - 1) + 1/2 * uL ^ 2) (γ * pL / rL / (γ - 1) + 1/2 * uL ^ 2 - pL / rL)
        rR uR pR (γ * pR / rR / (γ - 1) + 1/2 * uR ^ 2) (γ * pR / rR / (γ - 1) + 1/2 * uR ^ 2 - pR / rR)
        (hllcSL γ rL uL pL rR uR pR) (hllcSR γ rL uL pL rR uR pR) := rfl

/-- `hllcSM` is the `sM` inside `eHllc`: the mass flux of `eHllc` written with the three speeds (`rfl`) -/
theorem eHllc_fst (γ rL uL pL rR uR pR : ℝ) :
    (eHllc γ rL uL pL rR uR pR).1 =
      if 0 ≤ hllcSM γ rL uL pL rR uR pR then
        (if 0 ≤ hllcSL γ rL uL pL rR uR pR then rL * uL
         else rL * hllcSM γ rL uL pL rR uR pR * ((hllcSL γ rL uL pL rR uR pR - uL)
            / (hllcSL γ rL uL pL rR uR pR - hllcSM γ rL uL pL rR uR pR)))
      else
        (if hllcSR γ rL uL pL rR uR pR ≤ 0 then rR * uR
         else rR * hllcSM γ rL uL pL rR uR pR * ((hllcSR γ rL uL pL rR uR pR - uR)
            / (hllcSR γ rL uL pL rR uR pR - hllcSM γ rL uL pL rR uR pR))) := by
  rw [eHllc_eq_core]
  simp only [C02.hllcCore, hllcSM]
  split_ifs <;> rfl

/-- `hllcSM` is the expression of the hypothesis of `C02.eHllc_mirror` -/
theorem hllcSM_eq (γ rL uL pL rR uR pR : ℝ) :
    hllcSM γ rL uL pL rR uR pR =
      (let cL2 := γ * pL / rL
       let cR2 := γ * pR / rR
       let HL := cL2 / (γ - 1) + 1/2 * uL ^ 2
       let HR := cR2 / (γ - 1) + 1/2 * uR ^ 2
       let roe := eRoe γ rL uL HL rR uR HR
       let sL := min (roe.1 - roe.2) (uL - Real.sqrt cL2)
       let sR := max (roe.1 + roe.2) (uR + Real.sqrt cR2)
       (pL - pR - rL * uL * (sL - uL) + rR * uR * (sR - uR)) / (rR * (sR - uR) - rL * (sL - uL))) := rfl

theorem hllcSL_le (γ rL uL pL rR uR pR : ℝ) : hllcSL γ rL uL pL rR uR pR ≤ uL - Real.sqrt (γ * pL / rL) :=
  min_le_right _ _

theorem le_hllcSR (γ rL uL pL rR uR pR : ℝ) : uR + Real.sqrt (γ * pR / rR) ≤ hllcSR γ rL uL pL rR uR pR :=
  le_max_right _ _

/-- the denominator of `sM` is positive for admissible states -/
theorem hllc_den_pos (γ rL uL pL rR uR pR : ℝ) (hγ : 1 < γ) (hrL : 0 < rL) (hpL : 0 < pL)
    (hrR : 0 < rR) (hpR : 0 < pR) :
    0 < rR * (hllcSR γ rL uL pL rR uR pR - uR) - rL * (hllcSL γ rL uL pL rR uR pR - uL) := by
  have hγ0 : 0 < γ := by linarith
  have hcL : 0 < Real.sqrt (γ * pL / rL) := Real.sqrt_pos.mpr (by positivity)
  have hcR : 0 < Real.sqrt (γ * pR / rR) := Real.sqrt_pos.mpr (by positivity)
  have h1 := hllcSL_le γ rL uL pL rR uR pR
  have h2 := le_hllcSR γ rL uL pL rR uR pR
  have hA : 0 < rR * (hllcSR γ rL uL pL rR uR pR - uR) := mul_pos hrR (by linarith)
  have hB : 0 < rL * (uL - hllcSL γ rL uL pL rR uR pR) := mul_pos hrL (by linarith)
  nlinarith

/-- the wave speeds of the mirrored pair: `sL' = -sR`, `sR' = -sL` -/
theorem hllcSL_mirror (γ rL uL pL rR uR pR : ℝ) (hrL : 0 < rL) (hrR : 0 < rR) :
    hllcSL γ rR (-uR) pR rL (-uL) pL = -hllcSR γ rL uL pL rR uR pR := by
  simp only [hllcSL, hllcSR, hllcRoe, neg_sq]
  rw [C02.eRoe_mirror γ rL uL _ rR uR _ hrL hrR]
  simp only
  rw [← min_neg_neg]; congr 1 <;> ring

theorem hllcSR_mirror (γ rL uL pL rR uR pR : ℝ) (hrL : 0 < rL) (hrR : 0 < rR) :
    hllcSR γ rR (-uR) pR rL (-uL) pL = -hllcSL γ rL uL pL rR uR pR := by
  simp only [hllcSL, hllcSR, hllcRoe, neg_sq]
  rw [C02.eRoe_mirror γ rL uL _ rR uR _ hrL hrR]
  simp only
  rw [← max_neg_neg]; congr 1 <;> ring

/-- the contact speed of the mirrored pair: `sM' = -sM` (no hypothesis on the denominator: `a / 0 = 0`) -/
theorem hllcSM_mirror (γ rL uL pL rR uR pR : ℝ) (hrL : 0 < rL) (hrR : 0 < rR) :
    hllcSM γ rR (-uR) pR rL (-uL) pL = -hllcSM γ rL uL pL rR uR pR := by
  unfold hllcSM
  rw [hllcSL_mirror γ rL uL pL rR uR pR hrL hrR, hllcSR_mirror γ rL uL pL rR uR pR hrL hrR, ← neg_div]
  congr 1 <;> ring

/-- `eHllc` of the mirrored pair as `hllcCore` at the mirrored speeds -/
theorem eHllc_mirrored_eq_core (γ rL uL pL rR uR pR : ℝ) (hrL : 0 < rL) (hrR : 0 < rR) :
    eHllc γ rR (-uR) pR rL (-uL) pL =
      C02.hllcCore rR (-uR) pR (γ * pR / rR / (γ - 1) + 1/2 * uR ^ 2) (γ * pR / rR / (γ - 1) + 1/2 * uR ^ 2 - pR / rR)
        rL (-uL) pL (γ * pL / rL / (γ - 1) + 1/2 * uL ^ 2) (γ * pL / rL / (γ - 1) + 1/2 * uL ^ 2 - pL / rL)
        (-hllcSR γ rL uL pL rR uR pR) (-hllcSL γ rL uL pL rR uR pR) := by
  rw [eHllc_eq_core, hllcSL_mirror γ rL uL pL rR uR pR hrL hrR, hllcSR_mirror γ rL uL pL rR uR pR hrL hrR]
  simp only [neg_sq]

/-- `C02.eHllc_mirror` with the named contact speed -/
theorem eHllc_mirror (γ rL uL pL rR uR pR : ℝ) (hγ : 1 < γ) (hrL : 0 < rL) (hpL : 0 < pL)
    (hrR : 0 < rR) (hpR : 0 < pR) (hne : hllcSM γ rL uL pL rR uR pR ≠ 0) :
    eHllc γ rR (-uR) pR rL (-uL) pL
      = (-(eHllc γ rL uL pL rR uR pR).1, (eHllc γ rL uL pL rR uR pR).2.1, -(eHllc γ rL uL pL rR uR pR).2.2) :=
  C02.eHllc_mirror γ rL uL pL rR uR pR hγ hrL hpL hrR hpR hne

/-! ## (3) the tie `sM = 0` -/

/-- at `sM = 0` with the outer waves on both sides of the face (`sL < 0 < sR`) the left star flux (selected by the tie rule
`0 ≤ sM` in the problem AND in the mirror problem) is `(0, p*, 0)` on both sides: the mirror law holds -/
theorem hllcCore_mirror_zero (rL uL pL HL eL rR uR pR HR eR sL sR : ℝ)
    (hD : rR * (sR - uR) - rL * (sL - uL) ≠ 0)
    (h0 : (pL - pR - rL * uL * (sL - uL) + rR * uR * (sR - uR)) / (rR * (sR - uR) - rL * (sL - uL)) = 0)
    (hsL : sL < 0) (hsR : 0 < sR) :
    C02.hllcCore rR (-uR) pR HR eR rL (-uL) pL HL eL (-sR) (-sL)
      = (-(C02.hllcCore rL uL pL HL eL rR uR pR HR eR sL sR).1,
         (C02.hllcCore rL uL pL HL eL rR uR pR HR eR sL sR).2.1,
         -(C02.hllcCore rL uL pL HL eL rR uR pR HR eR sL sR).2.2) := by
  simp only [C02.hllcCore]
  have hsM' : (pR - pL - rR * -uR * (-sR - -uR) + rL * -uL * (-sL - -uL))
      / (rL * (-sL - -uL) - rR * (-sR - -uR))
      = -((pL - pR - rL * uL * (sL - uL) + rR * uR * (sR - uR))
      / (rR * (sR - uR) - rL * (sL - uL))) := by
    rw [← neg_div]; congr 1 <;> ring
  rw [hsM', h0]
  have hnum : pL - pR - rL * uL * (sL - uL) + rR * uR * (sR - uR) = 0 := by
    rcases div_eq_zero_iff.mp h0 with h | h
    · exact h
    · exact absurd h hD
  have hps : rL * (-uL - -sL) * (-uL - -0) + pL = rR * (uR - sR) * (uR - 0) + pR := by
    linear_combination hnum
  rw [hps]
  have h1 : ¬ (0 ≤ sL) := not_le.mpr hsL
  have h2 : ¬ (0 ≤ -sR) := by linarith
  simp only [neg_zero, le_refl, if_true, if_neg h1, if_neg h2]
  refine Prod.ext ?_ (Prod.ext ?_ ?_) <;> simp only <;> ring

/-- at `sM = 0` with `0 ≤ sL` (and `0 < sR`) the problem returns the physical flux of the left state while the mirror
problem returns the star flux `(0, p*, 0)`: the mass fluxes differ as soon as `ρL uL ≠ 0` -/
theorem hllcCore_mirror_fails (rL uL pL HL eL rR uR pR HR eR sL sR : ℝ)
    (h0 : (pL - pR - rL * uL * (sL - uL) + rR * uR * (sR - uR)) / (rR * (sR - uR) - rL * (sL - uL)) = 0)
    (hsL : 0 ≤ sL) (hsR : 0 < sR) (hm : rL * uL ≠ 0) :
    (C02.hllcCore rR (-uR) pR HR eR rL (-uL) pL HL eL (-sR) (-sL)).1
      ≠ -(C02.hllcCore rL uL pL HL eL rR uR pR HR eR sL sR).1 := by
  simp only [C02.hllcCore]
  have hsM' : (pR - pL - rR * -uR * (-sR - -uR) + rL * -uL * (-sL - -uL))
      / (rL * (-sL - -uL) - rR * (-sR - -uR))
      = -((pL - pR - rL * uL * (sL - uL) + rR * uR * (sR - uR))
      / (rR * (sR - uR) - rL * (sL - uL))) := by
    rw [← neg_div]; congr 1 <;> ring
  rw [hsM', h0]
  have h2 : ¬ (0 ≤ -sR) := by linarith
  simp only [neg_zero, le_refl, if_true, if_pos hsL, if_neg h2, mul_zero, zero_mul]
  intro h
  exact hm (by linarith)

/-- the mirror law of HLLC at a zero contact speed between outer waves of opposite signs -/
theorem eHllc_mirror_straddle (γ rL uL pL rR uR pR : ℝ) (hγ : 1 < γ) (hrL : 0 < rL) (hpL : 0 < pL)
    (hrR : 0 < rR) (hpR : 0 < pR) (h0 : hllcSM γ rL uL pL rR uR pR = 0)
    (hsL : hllcSL γ rL uL pL rR uR pR < 0) (hsR : 0 < hllcSR γ rL uL pL rR uR pR) :
    eHllc γ rR (-uR) pR rL (-uL) pL
      = (-(eHllc γ rL uL pL rR uR pR).1, (eHllc γ rL uL pL rR uR pR).2.1, -(eHllc γ rL uL pL rR uR pR).2.2) := by
  rw [eHllc_mirrored_eq_core γ rL uL pL rR uR pR hrL hrR, eHllc_eq_core γ rL uL pL rR uR pR]
  exact hllcCore_mirror_zero rL uL pL _ _ rR uR pR _ _ _ _
    (hllc_den_pos γ rL uL pL rR uR pR hγ hrL hpL hrR hpR).ne' h0 hsL hsR

/-- **mirror law of HLLC, sharpened**: for admissible states the law holds unless `sM = 0` exactly with both outer waves
on the same side (`0 ≤ sL` or `sR ≤ 0`) -/
theorem eHllc_mirror_weak (γ rL uL pL rR uR pR : ℝ) (hγ : 1 < γ) (hrL : 0 < rL) (hpL : 0 < pL)
    (hrR : 0 < rR) (hpR : 0 < pR)
    (h : hllcSM γ rL uL pL rR uR pR ≠ 0 ∨ (hllcSL γ rL uL pL rR uR pR < 0 ∧ 0 < hllcSR γ rL uL pL rR uR pR)) :
    eHllc γ rR (-uR) pR rL (-uL) pL
      = (-(eHllc γ rL uL pL rR uR pR).1, (eHllc γ rL uL pL rR uR pR).2.1, -(eHllc γ rL uL pL rR uR pR).2.2) := by
  by_cases h0 : hllcSM γ rL uL pL rR uR pR = 0
  · rcases h with h | h
    · exact absurd h0 h
    · exact eHllc_mirror_straddle γ rL uL pL rR uR pR hγ hrL hpL hrR hpR h0 h.1 h.2
  · exact eHllc_mirror γ rL uL pL rR uR pR hγ hrL hpL hrR hpR h0

/-- **the law does fail on the excluded set**: admissible states with `sM = 0`, `0 ≤ sL`, `0 < sR` violate the mirror law
(already in the mass flux: `ρL uL > 0` on one side, `0` on the other) -/
theorem eHllc_mirror_fails (γ rL uL pL rR uR pR : ℝ) (hγ : 1 < γ) (hrL : 0 < rL) (hpL : 0 < pL)
    (hrR : 0 < rR) (h0 : hllcSM γ rL uL pL rR uR pR = 0)
    (hsL : 0 ≤ hllcSL γ rL uL pL rR uR pR) (hsR : 0 < hllcSR γ rL uL pL rR uR pR) :
    (eHllc γ rR (-uR) pR rL (-uL) pL).1 ≠ -(eHllc γ rL uL pL rR uR pR).1 := by
  have hγ0 : 0 < γ := by linarith
  have hcL : 0 < Real.sqrt (γ * pL / rL) := Real.sqrt_pos.mpr (by positivity)
  have h1 := hllcSL_le γ rL uL pL rR uR pR
  have huL : 0 < uL := by linarith
  rw [eHllc_mirrored_eq_core γ rL uL pL rR uR pR hrL hrR, eHllc_eq_core γ rL uL pL rR uR pR]
  exact hllcCore_mirror_fails rL uL pL _ _ rR uR pR _ _ _ _ h0 hsL hsR (mul_pos hrL huL).ne'

/-! ### a concrete violation (`γ = 77/72`): `sM = 0` exactly, `sL = 9/220 > 0` -/

theorem cex_roe : hllcRoe (77/72) 1 (192/55) (18/77) 16 (219/110) (7200/77) = (126/55, 9/4) := by
  simp only [hllcRoe, eRoe, HasSqrt.sqrt_real]
  have e1 : Real.sqrt ((16 : ℝ) / 1) = 4 := by
    rw [show ((16 : ℝ) / 1) = 4 ^ 2 by norm_num]; exact Real.sqrt_sq (by norm_num)
  rw [e1]
  refine Prod.ext ?_ ?_
  · norm_num
  · simp only
    have e2 : ((1 / (1 + 4) * ((77 / 72 : ℝ) * (18 / 77) / 1 / (77 / 72 - 1) + 1 / 2 * (192 / 55) ^ 2
        + ((77 / 72 : ℝ) * (7200 / 77) / 16 / (77 / 72 - 1) + 1 / 2 * (219 / 110) ^ 2) * 4)
        - 1 / 2 * (1 / (1 + 4) * (192 / 55 + 219 / 110 * 4)) ^ 2) * (77 / 72 - 1)) = (9 / 4 : ℝ) ^ 2 := by
      norm_num
    rw [e2]; exact Real.sqrt_sq (by norm_num)

theorem cex_sL : hllcSL (77/72) 1 (192/55) (18/77) 16 (219/110) (7200/77) = 9/220 := by
  have e : Real.sqrt ((77 / 72 : ℝ) * (18 / 77) / 1) = 1 / 2 := by
    rw [show ((77 / 72 : ℝ) * (18 / 77) / 1) = (1 / 2) ^ 2 by norm_num]; exact Real.sqrt_sq (by norm_num)
  simp only [hllcSL, cex_roe, e]
  norm_num

theorem cex_sR : hllcSR (77/72) 1 (192/55) (18/77) 16 (219/110) (7200/77) = 999/220 := by
  have e : Real.sqrt ((77 / 72 : ℝ) * (7200 / 77) / 16) = 5 / 2 := by
    rw [show ((77 / 72 : ℝ) * (7200 / 77) / 16) = (5 / 2) ^ 2 by norm_num]; exact Real.sqrt_sq (by norm_num)
  simp only [hllcSR, cex_roe, e]
  norm_num

theorem cex_sM : hllcSM (77/72) 1 (192/55) (18/77) 16 (219/110) (7200/77) = 0 := by
  simp only [hllcSM, cex_sL, cex_sR]
  norm_num

/-- **counterexample to the unconditional mirror law of `eHllc`**: `γ = 77/72`, left state `(ρ,u,p) = (1, 192/55, 18/77)`,
right state `(16, 219/110, 7200/77)` (all positive): `sM = 0` exactly, `sL = 9/220`, `sR = 999/220`, and the mass flux of
the mirrored pair is not minus the mass flux of the pair.  The hypothesis `sM ≠ 0` of `C02.eHllc_mirror` cannot be dropped
for all `γ > 1` (it can be weakened to `sM ≠ 0 ∨ sL < 0 < sR`: `eHllc_mirror_weak`). -/
theorem eHllc_mirror_counterexample :
    hllcSM (77/72) 1 (192/55) (18/77) 16 (219/110) (7200/77) = 0
    ∧ (eHllc (77/72 : ℝ) 16 (-(219/110)) (7200/77) 1 (-(192/55)) (18/77)).1
        ≠ -(eHllc (77/72 : ℝ) 1 (192/55) (18/77) 16 (219/110) (7200/77)).1 := by
  refine ⟨cex_sM, eHllc_mirror_fails _ _ _ _ _ _ _ (by norm_num) (by norm_num) (by norm_num) (by norm_num) cex_sM ?_ ?_⟩
  · rw [cex_sL]; norm_num
  · rw [cex_sR]; norm_num

/-- the values of the two mass fluxes of the counterexample: `192/55` against `0` -/
theorem eHllc_mirror_counterexample_values :
    (eHllc (77/72 : ℝ) 1 (192/55) (18/77) 16 (219/110) (7200/77)).1 = 192/55
    ∧ (eHllc (77/72 : ℝ) 16 (-(219/110)) (7200/77) 1 (-(192/55)) (18/77)).1 = 0 := by
  constructor
  · rw [eHllc_fst, cex_sM, cex_sL]; norm_num
  · rw [eHllc_fst, hllcSM_mirror _ _ _ _ _ _ _ (by norm_num) (by norm_num),
      hllcSL_mirror _ _ _ _ _ _ _ (by norm_num) (by norm_num), cex_sM, cex_sR]
    norm_num

/-- the symmetric collision `ρL = ρR`, `pL = pR`, `uL = -uR = v` has `sM = 0` and obeys the law (`sL < 0 < sR`) -/
theorem eHllc_mirror_collision (γ r v p : ℝ) (hγ : 1 < γ) (hr : 0 < r) (hp : 0 < p) :
    hllcSM γ r v p r (-v) p = 0
    ∧ eHllc γ r (- -v) p r (-v) p
      = (-(eHllc γ r v p r (-v) p).1, (eHllc γ r v p r (-v) p).2.1, -(eHllc γ r v p r (-v) p).2.2) := by
  have hsym : hllcSM γ r v p r (-v) p = -hllcSM γ r v p r (-v) p := by
    have := hllcSM_mirror γ r v p r (-v) p hr hr
    rwa [neg_neg] at this
  have h0 : hllcSM γ r v p r (-v) p = 0 := by linarith
  have hSR : hllcSR γ r v p r (-v) p = -hllcSL γ r v p r (-v) p := by
    have := hllcSR_mirror γ r v p r (-v) p hr hr
    rwa [neg_neg] at this
  have hγ0 : 0 < γ := by linarith
  have hc : 0 < Real.sqrt (γ * p / r) := Real.sqrt_pos.mpr (by positivity)
  have h1 := hllcSL_le γ r v p r (-v) p
  have h2 := le_hllcSR γ r v p r (-v) p
  have hroe : (hllcRoe γ r v p r (-v) p).1 = 0 ∧ 0 < (hllcRoe γ r v p r (-v) p).2 := by
    simp only [hllcRoe, eRoe, HasSqrt.sqrt_real, neg_sq]
    rw [div_self hr.ne', Real.sqrt_one]
    refine ⟨by ring, Real.sqrt_pos.mpr ?_⟩
    have hg : 0 < γ - 1 := by linarith
    have hH : 0 < γ * p / r / (γ - 1) := by positivity
    have hv : 0 ≤ v ^ 2 := sq_nonneg v
    have : (1 / (1 + 1) * (γ * p / r / (γ - 1) + 1 / 2 * v ^ 2 + (γ * p / r / (γ - 1) + 1 / 2 * v ^ 2) * 1)
        - 1 / 2 * (1 / (1 + 1) * (v + -v * 1)) ^ 2) = γ * p / r / (γ - 1) + 1 / 2 * v ^ 2 := by ring
    rw [this]
    exact mul_pos (by linarith) hg
  have h3 : hllcSL γ r v p r (-v) p ≤ (hllcRoe γ r v p r (-v) p).1 - (hllcRoe γ r v p r (-v) p).2 :=
    min_le_left _ _
  have hsL : hllcSL γ r v p r (-v) p < 0 := by linarith [hroe.1, hroe.2]
  refine ⟨h0, eHllc_mirror_straddle γ r v p r (-v) p hγ hr hp hr hp h0 hsL (by linarith)⟩

/-! ## (2') the Euler 1D operator with the HLLC flux -/

theorem σE_sq (k : ℕ) : σE k * σE k = 1 := by
  by_cases hk : k = 1 <;> simp [σE, hk]

/-- admissible pair of face states: positive density and pressure on both sides -/
def Adm (L R : ℕ → ℝ) : Prop := 0 < L 0 ∧ 0 < L 2 ∧ 0 < R 0 ∧ 0 < R 2

/-- the three wave speeds of `eHllc` at a pair of component vectors `(ρ, u, p)` -/
noncomputable def faceSL (γ : ℝ) (L R : ℕ → ℝ) : ℝ := hllcSL γ (L 0) (L 1) (L 2) (R 0) (R 1) (R 2)
noncomputable def faceSR (γ : ℝ) (L R : ℕ → ℝ) : ℝ := hllcSR γ (L 0) (L 1) (L 2) (R 0) (R 1) (R 2)
noncomputable def faceSM (γ : ℝ) (L R : ℕ → ℝ) : ℝ := hllcSM γ (L 0) (L 1) (L 2) (R 0) (R 1) (R 2)

/-- the mirror law of `C13.rhs_mirror` for the HLLC flux at one admissible pair with `sM ≠ 0` or `sL < 0 < sR` -/
theorem eulerHllc_mirror_pair (γ : ℝ) (hγ : 1 < γ) (L R : ℕ → ℝ) (hadm : Adm L R)
    (h : faceSM γ L R ≠ 0 ∨ (faceSL γ L R < 0 ∧ 0 < faceSR γ L R)) (k : ℕ) :
    eulerFluxV γ EulerFlux.hllc (sig σE R) (sig σE L) k = -σE k * eulerFluxV γ EulerFlux.hllc L R k := by
  rw [← mE_eq_sig, ← mE_eq_sig]
  have e0 : ∀ w : ℕ → ℝ, mE w 0 = w 0 := fun w => by simp [mE]
  have e1 : ∀ w : ℕ → ℝ, mE w 1 = -w 1 := fun w => by simp [mE]
  have e2 : ∀ w : ℕ → ℝ, mE w 2 = w 2 := fun w => by simp [mE]
  have key : ∀ t : ℝ × ℝ × ℝ, vec3 (-t.1, t.2.1, -t.2.2) k = -σE k * vec3 t k := by
    intro t
    rcases k with _ | _ | k <;> simp [vec3, σE]
  obtain ⟨hL0, hL2, hR0, hR2⟩ := hadm
  simp only [eulerFluxV, e0, e1, e2]
  rw [eHllc_mirror_weak γ _ _ _ _ _ _ hγ hL0 hL2 hR0 hR2 h]
  exact key _

/-- the 1D Euler discretisation: kernels `eulerC2P γ`, `eulerFluxV γ fl` of `Model/Models1D.lean`, no sources -/
noncomputable def eulerDisc (γ : ℝ) (fl : EulerFlux) (m : Mesh1D ℝ) (sch : Scheme ℝ) (bc : BC1D ℝ ℕ) : Disc1D ℝ ℕ :=
  { mesh := m, scheme := sch, bc := bc, c2p := eulerC2P γ, flux := eulerFluxV γ fl, src := fun _ => none }

/-- the face states of the data `q` at face `f` -/
noncomputable def faceL (D : Disc1D ℝ ℕ) (q : ℕ → ℕ → ℝ) (f : ℕ) : ℕ → ℝ := fun j => D.pL q j f
noncomputable def faceR (D : Disc1D ℝ ℕ) (q : ℕ → ℕ → ℝ) (f : ℕ) : ℕ → ℝ := fun j => D.pR q j f

/-- **reflection equivariance of the 1D Euler operator with the HLLC flux**, sharp form: any mesh, any reconstruction
with an odd limiter, any boundary kernels (the mirror problem uses `mirrorBC σE`), `n ≥ 1`; at every face `f ≤ n` the
face states of the data are admissible and `sM ≠ 0` or `sL < 0 < sR` -/
theorem euler_hllc_rhs_mirror_weak (γ : ℝ) (hγ : 1 < γ) (m : Mesh1D ℝ) (sch : Scheme ℝ) (hs : OddScheme sch)
    (bc : BC1D ℝ ℕ) (hn : 0 < m.n) (q : ℕ → ℕ → ℝ)
    (hadm : ∀ f, f ≤ m.n → Adm (faceL (eulerDisc γ .hllc m sch bc) q f) (faceR (eulerDisc γ .hllc m sch bc) q f))
    (hsM : ∀ f, f ≤ m.n →
      faceSM γ (faceL (eulerDisc γ .hllc m sch bc) q f) (faceR (eulerDisc γ .hllc m sch bc) q f) ≠ 0
      ∨ (faceSL γ (faceL (eulerDisc γ .hllc m sch bc) q f) (faceR (eulerDisc γ .hllc m sch bc) q f) < 0
         ∧ 0 < faceSR γ (faceL (eulerDisc γ .hllc m sch bc) q f) (faceR (eulerDisc γ .hllc m sch bc) q f)))
    (k : ℕ) (i : ℕ) (hi : i < m.n) :
    (mirrorDisc σE (eulerDisc γ .hllc m sch bc)).rhs (mirrorData σE m.n q) k i
      = σE k * (eulerDisc γ .hllc m sch bc).rhs q k (m.n - 1 - i) :=
  rhs_mirror_on σE σE_sq (eulerDisc γ .hllc m sch bc) (fun _ => rfl) hs (eulerC2P_mirror γ) hn q
    (fun f hf k' => eulerHllc_mirror_pair γ hγ _ _ (hadm f hf) (hsM f hf) k') k i hi

/-- **reflection equivariance of the 1D Euler operator with the HLLC flux**: data whose face states are admissible and
whose HLLC contact speed is non-zero at every face -/
theorem euler_hllc_rhs_mirror (γ : ℝ) (hγ : 1 < γ) (m : Mesh1D ℝ) (sch : Scheme ℝ) (hs : OddScheme sch)
    (bc : BC1D ℝ ℕ) (hn : 0 < m.n) (q : ℕ → ℕ → ℝ)
    (hadm : ∀ f, f ≤ m.n → Adm (faceL (eulerDisc γ .hllc m sch bc) q f) (faceR (eulerDisc γ .hllc m sch bc) q f))
    (hsM : ∀ f, f ≤ m.n →
      faceSM γ (faceL (eulerDisc γ .hllc m sch bc) q f) (faceR (eulerDisc γ .hllc m sch bc) q f) ≠ 0)
    (k : ℕ) (i : ℕ) (hi : i < m.n) :
    (mirrorDisc σE (eulerDisc γ .hllc m sch bc)).rhs (mirrorData σE m.n q) k i
      = σE k * (eulerDisc γ .hllc m sch bc).rhs q k (m.n - 1 - i) :=
  euler_hllc_rhs_mirror_weak γ hγ m sch hs bc hn q hadm (fun f hf => Or.inl (hsM f hf)) k i hi

/-- the other registered fluxes (`C13.eulerFlux_mirror`): positive densities at the faces suffice -/
theorem euler_rhs_mirror (γ : ℝ) (fl : EulerFlux) (hfl : fl ≠ EulerFlux.hllc) (m : Mesh1D ℝ) (sch : Scheme ℝ)
    (hs : OddScheme sch) (bc : BC1D ℝ ℕ) (hn : 0 < m.n) (q : ℕ → ℕ → ℝ)
    (hpos : ∀ f, f ≤ m.n → 0 < (eulerDisc γ fl m sch bc).pL q 0 f ∧ 0 < (eulerDisc γ fl m sch bc).pR q 0 f)
    (k : ℕ) (i : ℕ) (hi : i < m.n) :
    (mirrorDisc σE (eulerDisc γ fl m sch bc)).rhs (mirrorData σE m.n q) k i
      = σE k * (eulerDisc γ fl m sch bc).rhs q k (m.n - 1 - i) :=
  rhs_mirror_on σE σE_sq (eulerDisc γ fl m sch bc) (fun _ => rfl) hs (eulerC2P_mirror γ) hn q
    (fun f hf k' => eulerFlux_mirror γ fl hfl _ _ (hpos f hf).1 (hpos f hf).2 k') k i hi

/-- mirrored boundary-condition record (`dirichlet` with the mirrored imposed state) -/
def mirEulerBC : EulerBC ℝ → EulerBC ℝ
  | .dirichlet prim => .dirichlet (mE prim)
  | b' => b'

theorem mE_mE (w : ℕ → ℝ) : mE (mE w) = w := by
  funext k
  by_cases hk : k = 1
  · subst hk; simp [mE]
  · simp [mE, hk]

/-- the mirror problem of an Euler problem with registered boundary conditions IS the Euler problem on the mirrored
mesh with the two boundary conditions exchanged (`dir` reversed) -/
theorem mirrorDisc_euler (γ : ℝ) (fl : EulerFlux) (m : Mesh1D ℝ) (sch : Scheme ℝ) (bL bR : EulerBC ℝ) :
    mirrorDisc σE (eulerDisc γ fl m sch (.open (eulerBC γ (-1) bL) (eulerBC γ 1 bR)))
      = eulerDisc γ fl (mirrorMesh m) sch (.open (eulerBC γ (-1) (mirEulerBC bR)) (eulerBC γ 1 (mirEulerBC bL))) := by
  have hR : (fun w => sig σE (eulerBC γ 1 bR (sig σE w))) = eulerBC γ (-1) (mirEulerBC bR) := by
    funext w
    rw [← mE_eq_sig, ← mE_eq_sig]
    have := eulerBC_mirror γ 1 bR (mE w)
    rw [mE_mE] at this
    rw [← this]
    cases bR <;> rfl
  have hL : (fun w => sig σE (eulerBC γ (-1) bL (sig σE w))) = eulerBC γ 1 (mirEulerBC bL) := by
    funext w
    rw [← mE_eq_sig, ← mE_eq_sig]
    have := eulerBC_mirror γ (-1) bL (mE w)
    rw [mE_mE, neg_neg] at this
    rw [← this]
    cases bL <;> rfl
  simp only [mirrorDisc, eulerDisc, mirrorBC, hR, hL]

/-! ## (4) non-vacuity: a periodic two-cell configuration -/

/-- a sufficient condition for `sM > 0`: both velocities positive and `pR ≤ pL` (no square root has to be evaluated) -/
theorem hllcSM_pos (γ rL uL pL rR uR pR : ℝ) (hγ : 1 < γ) (hrL : 0 < rL) (hpL : 0 < pL) (hrR : 0 < rR) (hpR : 0 < pR)
    (huL : 0 < uL) (huR : 0 < uR) (hp : pR ≤ pL) : 0 < hllcSM γ rL uL pL rR uR pR := by
  have hγ0 : 0 < γ := by linarith
  have hcL : 0 < Real.sqrt (γ * pL / rL) := Real.sqrt_pos.mpr (by positivity)
  have hcR : 0 < Real.sqrt (γ * pR / rR) := Real.sqrt_pos.mpr (by positivity)
  have h1 := hllcSL_le γ rL uL pL rR uR pR
  have h2 := le_hllcSR γ rL uL pL rR uR pR
  unfold hllcSM
  apply div_pos _ (hllc_den_pos γ rL uL pL rR uR pR hγ hrL hpL hrR hpR)
  have hA : 0 < rR * uR * (hllcSR γ rL uL pL rR uR pR - uR) := mul_pos (mul_pos hrR huR) (by linarith)
  have hB : 0 < rL * uL * (uL - hllcSL γ rL uL pL rR uR pR) := mul_pos (mul_pos hrL huL) (by linarith)
  nlinarith

/-- face states of a first-order periodic discretisation: the neighbouring cell values, the seam closing the ring -/
theorem faces_per_fo {α ι : Type} [Field α] (D : Disc1D α ι) (hsch : D.scheme = .extrapol1) (hbc : D.bc = .periodic)
    (hn : 0 < D.mesh.n) (q : ι → ℕ → α) (j : ι) (f : ℕ) :
    D.pL q j f = D.pdata q j (if f = 0 then D.mesh.n - 1 else f - 1)
    ∧ D.pR q j f = D.pdata q j (if f = D.mesh.n then 0 else f) := by
  have hn' : D.mesh.n ≠ 0 := by omega
  constructor
  · unfold Disc1D.pL bcFaceL Disc1D.pL0 recL
    rw [hsch, hbc]
    split_ifs <;> simp [slopeL]
  · unfold Disc1D.pR bcFaceR Disc1D.pR0 recR
    rw [hsch, hbc]
    split_ifs <;> simp_all [slopeR]

/-- two cells on `[0,1]`, periodic, first order, HLLC, `γ = 7/5` -/
noncomputable def exD : Disc1D ℝ ℕ := eulerDisc (7/5) .hllc (uniMesh 2 1 0) .extrapol1 .periodic

/-- conservative data: primitive states `(ρ,u,p) = (1,1,1)` and `(2,1,1)` -/
noncomputable def exQ : ℕ → ℕ → ℝ := fun k i =>
  match k, i with
  | 0, 0 => 1 | 0, _ => 2
  | 1, 0 => 1 | 1, _ => 2
  | _, 0 => 3 | _, _ => 7/2

theorem ex_pdata0 : (fun j => exD.pdata exQ j 0) = vec3 (1, 1, 1) := by
  funext j
  simp only [Disc1D.pdata, exD, eulerDisc, eulerC2P, eCons2prim, ePressure, eKinetic, exQ]
  rcases j with _ | _ | j <;> simp only [vec3] <;> norm_num

theorem ex_pdata1 : (fun j => exD.pdata exQ j 1) = vec3 (2, 1, 1) := by
  funext j
  simp only [Disc1D.pdata, exD, eulerDisc, eulerC2P, eCons2prim, ePressure, eKinetic, exQ]
  rcases j with _ | _ | j <;> simp only [vec3] <;> norm_num

/-- the face states of the example: a density `1` or `2` on each side, `u = p = 1` -/
theorem ex_faces (f : ℕ) (hf : f ≤ 2) :
    ∃ rL rR : ℝ, 0 < rL ∧ 0 < rR ∧ faceL exD exQ f = vec3 (rL, 1, 1) ∧ faceR exD exQ f = vec3 (rR, 1, 1) := by
  have h := fun j => faces_per_fo exD rfl rfl (by norm_num [exD, eulerDisc, uniMesh]) exQ j f
  have hn : exD.mesh.n = 2 := rfl
  have eL : faceL exD exQ f = fun j => exD.pdata exQ j (if f = 0 then 2 - 1 else f - 1) := by
    funext j; exact (h j).1
  have eR : faceR exD exQ f = fun j => exD.pdata exQ j (if f = 2 then 0 else f) := by
    funext j; exact (h j).2
  rw [eL, eR]
  interval_cases f
  · exact ⟨2, 1, by norm_num, by norm_num, ex_pdata1, ex_pdata0⟩
  · exact ⟨1, 2, by norm_num, by norm_num, ex_pdata0, ex_pdata1⟩
  · exact ⟨2, 1, by norm_num, by norm_num, ex_pdata1, ex_pdata0⟩

theorem ex_adm (f : ℕ) (hf : f ≤ 2) : Adm (faceL exD exQ f) (faceR exD exQ f) := by
  obtain ⟨rL, rR, hL, hR, eL, eR⟩ := ex_faces f hf
  rw [eL, eR]
  exact ⟨hL, by norm_num [vec3], hR, by norm_num [vec3]⟩

theorem ex_sM (f : ℕ) (hf : f ≤ 2) : faceSM (7/5) (faceL exD exQ f) (faceR exD exQ f) ≠ 0 := by
  obtain ⟨rL, rR, hL, hR, eL, eR⟩ := ex_faces f hf
  rw [eL, eR]
  have : 0 < hllcSM (7/5) rL 1 1 rR 1 1 :=
    hllcSM_pos (7/5) rL 1 1 rR 1 1 (by norm_num) hL one_pos hR one_pos one_pos one_pos le_rfl
  exact this.ne'

/-- **non-vacuity of `euler_hllc_rhs_mirror`**: all its hypotheses hold for the two-cell configuration (admissible face
states, `sM > 0` at the three faces), so the mirrored operator applied to the mirrored data is the mirrored residual -/
example (k i : ℕ) (hi : i < 2) :
    (mirrorDisc σE exD).rhs (mirrorData σE 2 exQ) k i = σE k * exD.rhs exQ k (2 - 1 - i) :=
  euler_hllc_rhs_mirror (7/5) (by norm_num) (uniMesh 2 1 0) .extrapol1 trivial .periodic (by norm_num [uniMesh]) exQ
    ex_adm ex_sM k i hi

end Flowdyn.C13f
