/-
C08 — solve is pure: repeatable, unaffected by saving, monitoring or restart.
The theorems live with the driver bookkeeping in `Flowdyn/Props/C07.lean` (namespace `Flowdyn.C07`):
`loop_core`, `loop_indep_of_saves_and_monitors`, `run_indep_of_saves_and_monitors`, `restart_split`, …
-/
import Flowdyn.Props.C07
import Flowdyn.Props.C07b
import Flowdyn.Props.C08b
