/-
C01 (2D) — discrete conservation on the 2D Cartesian pipeline with closed (periodic or impermeable) sides.

`C15.balance2d`: the volume-weighted sum of the residual of equation `k` is the balance of the fluxes through
the four sides.  Hence, if each pair of opposite sides is periodic, or carries boundary fluxes whose component
`k` vanishes, the sum over all cells of `rhs q k` is zero — the integral of component `k` is invariant.

Slip walls (`sym`) of the 2D Euler model: the ghost state is the mirror image of the extrapolated interior
state, and between a state and its mirror image the centered flux and the HLLE flux have zero mass flux, zero
tangential-momentum flux and zero energy flux (only the pressure acts, on the normal momentum).  So mass and
energy are conserved in a box with slip walls (on any subset of the sides, the others periodic), and the
momentum component parallel to the walls is conserved in a channel.
-/
import Flowdyn.Model.FVM2D
import Flowdyn.Model.Models2D
import Flowdyn.Lemmas.RealInst
import Flowdyn.Props.C15
import Flowdyn.Props.C02b
import Mathlib.Algebra.BigOperators.Intervals
import Mathlib.Algebra.BigOperators.Group.Finset.Basic
import Mathlib.Algebra.BigOperators.Ring.Finset
import Mathlib.Tactic.Ring
import Mathlib.Tactic.Linarith
import Mathlib.Tactic.FieldSimp
import Mathlib.Tactic.NormNum
import Mathlib.Tactic.Positivity

namespace Flowdyn.C01
open Flowdyn Finset

section pipeline
variable {α : Type} [Field α] {ι : Type}
set_option linter.unusedSectionVars false

theorem nx_ne_zero_of_dx (D : Disc2D α ι) (hdx : D.mesh.dx ≠ 0) : D.mesh.nx ≠ 0 := by
  intro h
  apply hdx
  unfold Mesh2D.dx
  rw [h, Nat.cast_zero, div_zero]
theorem ny_ne_zero_of_dy (D : Disc2D α ι) (hdy : D.mesh.dy ≠ 0) : D.mesh.ny ≠ 0 := by
  intro h
  apply hdy
  unfold Mesh2D.dy
  rw [h, Nat.cast_zero, div_zero]

/-- component `k` does not leak through the left/right pair: periodic, or zero boundary fluxes -/
def ClosedX (D : Disc2D α ι) (q : ι → ℕ → ℕ → α) (k : ι) : Prop :=
  D.bcx = BCPair.periodic ∨ ∀ j, j < D.mesh.ny → D.xFlux q k 0 j = 0 ∧ D.xFlux q k D.mesh.nx j = 0
/-- component `k` does not leak through the bottom/top pair -/
def ClosedY (D : Disc2D α ι) (q : ι → ℕ → ℕ → α) (k : ι) : Prop :=
  D.bcy = BCPair.periodic ∨ ∀ i, i < D.mesh.nx → D.yFlux q k i 0 = 0 ∧ D.yFlux q k i D.mesh.ny = 0

/-- weighted form: the volume integral of `rhs q k` vanishes -/
theorem closed2d_weighted (D : Disc2D α ι) (hdx : D.mesh.dx ≠ 0) (hdy : D.mesh.dy ≠ 0)
    (q : ι → ℕ → ℕ → α) (k : ι) (hx : ClosedX D q k) (hy : ClosedY D q k) :
    ∑ j ∈ range D.mesh.ny, ∑ i ∈ range D.mesh.nx, D.mesh.vol * D.rhs q k i j = 0 := by
  rw [C15.balance2d D hdx hdy]
  have h1 : ∑ j ∈ range D.mesh.ny, (D.xFlux q k 0 j - D.xFlux q k D.mesh.nx j) = 0 := by
    apply Finset.sum_eq_zero
    intro j hj
    rcases hx with hper | h0
    · exact sub_eq_zero.mpr (C15.periodic_x_fluxes D hper (nx_ne_zero_of_dx D hdx) q k j)
    · rw [(h0 j (mem_range.mp hj)).1, (h0 j (mem_range.mp hj)).2, sub_self]
  have h2 : ∑ i ∈ range D.mesh.nx, (D.yFlux q k i 0 - D.yFlux q k i D.mesh.ny) = 0 := by
    apply Finset.sum_eq_zero
    intro i hi
    rcases hy with hper | h0
    · exact sub_eq_zero.mpr (C15.periodic_y_fluxes D hper (ny_ne_zero_of_dy D hdy) q k i)
    · rw [(h0 i (mem_range.mp hi)).1, (h0 i (mem_range.mp hi)).2, sub_self]
  rw [h1, h2, mul_zero, mul_zero, add_zero]

/-- **2D conservation with closed sides**: the sum over all cells of the residual of equation `k` is zero
(all cells have the same volume `dx·dy ≠ 0`), for any `cons2prim`, scheme and flux function -/
theorem closed2d (D : Disc2D α ι) (hdx : D.mesh.dx ≠ 0) (hdy : D.mesh.dy ≠ 0)
    (q : ι → ℕ → ℕ → α) (k : ι) (hx : ClosedX D q k) (hy : ClosedY D q k) :
    ∑ j ∈ range D.mesh.ny, ∑ i ∈ range D.mesh.nx, D.rhs q k i j = 0 := by
  have h := closed2d_weighted D hdx hdy q k hx hy
  simp only [← Finset.mul_sum] at h
  have hvol : D.mesh.vol ≠ 0 := mul_ne_zero hdx hdy
  exact (mul_eq_zero.mp h).resolve_left hvol

/-- the boundary fluxes of an open pair: ghost state from the boundary kernel on one side, extrapolated
interior state on the other -/
theorem xFlux_open (D : Disc2D α ι) (lo hi : (ι → α) → (ι → α)) (hbc : D.bcx = BCPair.open lo hi)
    (hnx : D.mesh.nx ≠ 0) (q : ι → ℕ → ℕ → α) (k : ι) (j : ℕ) :
    D.xFlux q k 0 j = D.flux 1 0 (lo (fun l => D.xR0 q l 0 j)) (fun l => D.xR0 q l 0 j) k
    ∧ D.xFlux q k D.mesh.nx j
        = D.flux 1 0 (fun l => D.xL0 q l D.mesh.nx j) (hi (fun l => D.xL0 q l D.mesh.nx j)) k := by
  have hnx' : ¬ (0 = D.mesh.nx) := fun h => hnx h.symm
  unfold Disc2D.xFlux Disc2D.xL Disc2D.xR
  simp only [hbc, if_true, if_neg hnx, if_neg hnx']
  exact ⟨trivial, trivial⟩
theorem yFlux_open (D : Disc2D α ι) (lo hi : (ι → α) → (ι → α)) (hbc : D.bcy = BCPair.open lo hi)
    (hny : D.mesh.ny ≠ 0) (q : ι → ℕ → ℕ → α) (k : ι) (i : ℕ) :
    D.yFlux q k i 0 = D.flux 0 1 (lo (fun l => D.yR0 q l i 0)) (fun l => D.yR0 q l i 0) k
    ∧ D.yFlux q k i D.mesh.ny
        = D.flux 0 1 (fun l => D.yL0 q l i D.mesh.ny) (hi (fun l => D.yL0 q l i D.mesh.ny)) k := by
  have hny' : ¬ (0 = D.mesh.ny) := fun h => hny h.symm
  unfold Disc2D.yFlux Disc2D.yL Disc2D.yR
  simp only [hbc, if_true, if_neg hny, if_neg hny']
  exact ⟨trivial, trivial⟩

end pipeline

/-! ### slip walls of the 2D Euler model: kernel facts -/
section walls
variable {α : Type} [Field α] [LinearOrder α] [IsStrictOrderedRing α]
set_option linter.unusedSectionVars false

/-- on the Cartesian sides `sym` is the mirror image: the normal velocity component changes sign -/
theorem e2BcSym_x (r ux uy p : α) :
    e2BcSym (-1) 0 r ux uy p = (r, -ux, uy, p) ∧ e2BcSym 1 0 r ux uy p = (r, -ux, uy, p) := by
  simp only [e2BcSym]
  constructor <;> refine Prod.ext rfl (Prod.ext ?_ (Prod.ext ?_ rfl)) <;> simp only <;> ring
theorem e2BcSym_y (r ux uy p : α) :
    e2BcSym 0 (-1) r ux uy p = (r, ux, -uy, p) ∧ e2BcSym 0 1 r ux uy p = (r, ux, -uy, p) := by
  simp only [e2BcSym]
  constructor <;> refine Prod.ext rfl (Prod.ext ?_ (Prod.ext ?_ rfl)) <;> simp only <;> ring

/-- centered flux through an x-face between a state and its x-mirror image (either order): no mass, no
y-momentum, no energy flux; the x-momentum flux is `ρ ux² + p` -/
theorem e2Centered_wall_x (γ r ux uy p : α) :
    (e2Centered γ 1 0 r (-ux) uy p r ux uy p).1 = 0
    ∧ (e2Centered γ 1 0 r (-ux) uy p r ux uy p).2.2.1 = 0
    ∧ (e2Centered γ 1 0 r (-ux) uy p r ux uy p).2.2.2 = 0
    ∧ (e2Centered γ 1 0 r ux uy p r (-ux) uy p).1 = 0
    ∧ (e2Centered γ 1 0 r ux uy p r (-ux) uy p).2.2.1 = 0
    ∧ (e2Centered γ 1 0 r ux uy p r (-ux) uy p).2.2.2 = 0
    ∧ (e2Centered γ 1 0 r (-ux) uy p r ux uy p).2.1 = r * ux ^ 2 + p
    ∧ (e2Centered γ 1 0 r ux uy p r (-ux) uy p).2.1 = r * ux ^ 2 + p := by
  simp only [e2Centered]
  refine ⟨?_, ?_, ?_, ?_, ?_, ?_, ?_, ?_⟩ <;> ring
theorem e2Centered_wall_y (γ r ux uy p : α) :
    (e2Centered γ 0 1 r ux (-uy) p r ux uy p).1 = 0
    ∧ (e2Centered γ 0 1 r ux (-uy) p r ux uy p).2.1 = 0
    ∧ (e2Centered γ 0 1 r ux (-uy) p r ux uy p).2.2.2 = 0
    ∧ (e2Centered γ 0 1 r ux uy p r ux (-uy) p).1 = 0
    ∧ (e2Centered γ 0 1 r ux uy p r ux (-uy) p).2.1 = 0
    ∧ (e2Centered γ 0 1 r ux uy p r ux (-uy) p).2.2.2 = 0
    ∧ (e2Centered γ 0 1 r ux (-uy) p r ux uy p).2.2.1 = r * uy ^ 2 + p
    ∧ (e2Centered γ 0 1 r ux uy p r ux (-uy) p).2.2.1 = r * uy ^ 2 + p := by
  simp only [e2Centered]
  refine ⟨?_, ?_, ?_, ?_, ?_, ?_, ?_, ?_⟩ <;> ring

/-- a component vector `vec4 t` vanishes at every index except possibly `1` / except possibly `2` -/
theorem vec4_off1 (t : T4 α) (h1 : t.1 = 0) (h3 : t.2.2.1 = 0) (h4 : t.2.2.2 = 0) (k : ℕ) (hk : k ≠ 1) :
    vec4 t k = 0 :=
  match k, hk with
  | 0, _ => h1
  | 1, hk => absurd rfl hk
  | 2, _ => h3
  | _ + 3, _ => h4
theorem vec4_off2 (t : T4 α) (h1 : t.1 = 0) (h2 : t.2.1 = 0) (h4 : t.2.2.2 = 0) (k : ℕ) (hk : k ≠ 2) :
    vec4 t k = 0 :=
  match k, hk with
  | 0, _ => h1
  | 1, _ => h2
  | 2, hk => absurd rfl hk
  | _ + 3, _ => h4

variable [HasSqrt α] [HasRpow α]

/-- the packaged centered flux at a slip wall: every component except the normal momentum vanishes
(left and right wall: `k ≠ 1`; bottom and top wall: `k ≠ 2`), for any interior state `w` -/
theorem euler2dCentered_wall_x (γ : α) (w : ℕ → α) (k : ℕ) (hk : k ≠ 1) :
    euler2dFluxV γ .centered 1 0 (euler2dBC γ (-1) 0 .sym w) w k = 0
    ∧ euler2dFluxV γ .centered 1 0 w (euler2dBC γ 1 0 .sym w) k = 0 := by
  have hw := e2Centered_wall_x γ (w 0) (w 1) (w 2) (w 3)
  constructor
  · show vec4 (e2Centered γ 1 0 (e2BcSym (-1) 0 (w 0) (w 1) (w 2) (w 3)).1
      (e2BcSym (-1) 0 (w 0) (w 1) (w 2) (w 3)).2.1 (e2BcSym (-1) 0 (w 0) (w 1) (w 2) (w 3)).2.2.1
      (e2BcSym (-1) 0 (w 0) (w 1) (w 2) (w 3)).2.2.2 (w 0) (w 1) (w 2) (w 3)) k = 0
    rw [(e2BcSym_x (w 0) (w 1) (w 2) (w 3)).1]
    exact vec4_off1 _ hw.1 hw.2.1 hw.2.2.1 k hk
  · show vec4 (e2Centered γ 1 0 (w 0) (w 1) (w 2) (w 3) (e2BcSym 1 0 (w 0) (w 1) (w 2) (w 3)).1
      (e2BcSym 1 0 (w 0) (w 1) (w 2) (w 3)).2.1 (e2BcSym 1 0 (w 0) (w 1) (w 2) (w 3)).2.2.1
      (e2BcSym 1 0 (w 0) (w 1) (w 2) (w 3)).2.2.2) k = 0
    rw [(e2BcSym_x (w 0) (w 1) (w 2) (w 3)).2]
    exact vec4_off1 _ hw.2.2.2.1 hw.2.2.2.2.1 hw.2.2.2.2.2.1 k hk
theorem euler2dCentered_wall_y (γ : α) (w : ℕ → α) (k : ℕ) (hk : k ≠ 2) :
    euler2dFluxV γ .centered 0 1 (euler2dBC γ 0 (-1) .sym w) w k = 0
    ∧ euler2dFluxV γ .centered 0 1 w (euler2dBC γ 0 1 .sym w) k = 0 := by
  have hw := e2Centered_wall_y γ (w 0) (w 1) (w 2) (w 3)
  constructor
  · show vec4 (e2Centered γ 0 1 (e2BcSym 0 (-1) (w 0) (w 1) (w 2) (w 3)).1
      (e2BcSym 0 (-1) (w 0) (w 1) (w 2) (w 3)).2.1 (e2BcSym 0 (-1) (w 0) (w 1) (w 2) (w 3)).2.2.1
      (e2BcSym 0 (-1) (w 0) (w 1) (w 2) (w 3)).2.2.2 (w 0) (w 1) (w 2) (w 3)) k = 0
    rw [(e2BcSym_y (w 0) (w 1) (w 2) (w 3)).1]
    exact vec4_off2 _ hw.1 hw.2.1 hw.2.2.1 k hk
  · show vec4 (e2Centered γ 0 1 (w 0) (w 1) (w 2) (w 3) (e2BcSym 0 1 (w 0) (w 1) (w 2) (w 3)).1
      (e2BcSym 0 1 (w 0) (w 1) (w 2) (w 3)).2.1 (e2BcSym 0 1 (w 0) (w 1) (w 2) (w 3)).2.2.1
      (e2BcSym 0 1 (w 0) (w 1) (w 2) (w 3)).2.2.2) k = 0
    rw [(e2BcSym_y (w 0) (w 1) (w 2) (w 3)).2]
    exact vec4_off2 _ hw.2.2.2.1 hw.2.2.2.2.1 hw.2.2.2.2.2.1 k hk

end walls

/-- HLLE through an x-face between a state and its x-mirror image (either order): by the mirror law
`C02.e2Hlle_mirror_x` the flux equals its own reflection, so mass, y-momentum and energy fluxes vanish
(the Roe-averaged normal velocity is 0 and `sL = -sR`).  Only `ρ > 0` is needed. -/
theorem e2Hlle_wall_x (γ r ux uy p : ℝ) (hr : 0 < r) :
    (e2Hlle γ 1 0 r (-ux) uy p r ux uy p).1 = 0
    ∧ (e2Hlle γ 1 0 r (-ux) uy p r ux uy p).2.2.1 = 0
    ∧ (e2Hlle γ 1 0 r (-ux) uy p r ux uy p).2.2.2 = 0
    ∧ (e2Hlle γ 1 0 r ux uy p r (-ux) uy p).1 = 0
    ∧ (e2Hlle γ 1 0 r ux uy p r (-ux) uy p).2.2.1 = 0
    ∧ (e2Hlle γ 1 0 r ux uy p r (-ux) uy p).2.2.2 = 0 := by
  have h1 := C02.e2Hlle_mirror_x γ r (-ux) uy p r ux uy p hr hr
  have h2 := C02.e2Hlle_mirror_x γ r ux uy p r (-ux) uy p hr hr
  simp only [neg_neg] at h1 h2
  have h1a := congrArg Prod.fst h1
  have h1b := congrArg (fun t => t.2.2.1) h1
  have h1c := congrArg (fun t => t.2.2.2) h1
  have h2a := congrArg Prod.fst h2
  have h2b := congrArg (fun t => t.2.2.1) h2
  have h2c := congrArg (fun t => t.2.2.2) h2
  simp only at h1a h1b h1c h2a h2b h2c
  refine ⟨?_, ?_, ?_, ?_, ?_, ?_⟩ <;> linarith
theorem e2Hlle_wall_y (γ r ux uy p : ℝ) (hr : 0 < r) :
    (e2Hlle γ 0 1 r ux (-uy) p r ux uy p).1 = 0
    ∧ (e2Hlle γ 0 1 r ux (-uy) p r ux uy p).2.1 = 0
    ∧ (e2Hlle γ 0 1 r ux (-uy) p r ux uy p).2.2.2 = 0
    ∧ (e2Hlle γ 0 1 r ux uy p r ux (-uy) p).1 = 0
    ∧ (e2Hlle γ 0 1 r ux uy p r ux (-uy) p).2.1 = 0
    ∧ (e2Hlle γ 0 1 r ux uy p r ux (-uy) p).2.2.2 = 0 := by
  have h1 := C02.e2Hlle_mirror_y γ r ux (-uy) p r ux uy p hr hr
  have h2 := C02.e2Hlle_mirror_y γ r ux uy p r ux (-uy) p hr hr
  simp only [neg_neg] at h1 h2
  have h1a := congrArg Prod.fst h1
  have h1b := congrArg (fun t => t.2.1) h1
  have h1c := congrArg (fun t => t.2.2.2) h1
  have h2a := congrArg Prod.fst h2
  have h2b := congrArg (fun t => t.2.1) h2
  have h2c := congrArg (fun t => t.2.2.2) h2
  simp only at h1a h1b h1c h2a h2b h2c
  refine ⟨?_, ?_, ?_, ?_, ?_, ?_⟩ <;> linarith

/-- both Euler 2D fluxes at a slip wall, interior density positive: every component except the normal
momentum vanishes -/
theorem euler2dFluxV_wall_x (γ : ℝ) (fl : Euler2DFlux) (w : ℕ → ℝ) (h0 : 0 < w 0) (k : ℕ) (hk : k ≠ 1) :
    euler2dFluxV γ fl 1 0 (euler2dBC γ (-1) 0 .sym w) w k = 0
    ∧ euler2dFluxV γ fl 1 0 w (euler2dBC γ 1 0 .sym w) k = 0 := by
  cases fl with
  | centered => exact euler2dCentered_wall_x γ w k hk
  | hlle =>
    have hw := e2Hlle_wall_x γ (w 0) (w 1) (w 2) (w 3) h0
    constructor
    · show vec4 (e2Hlle γ 1 0 (e2BcSym (-1) 0 (w 0) (w 1) (w 2) (w 3)).1
        (e2BcSym (-1) 0 (w 0) (w 1) (w 2) (w 3)).2.1 (e2BcSym (-1) 0 (w 0) (w 1) (w 2) (w 3)).2.2.1
        (e2BcSym (-1) 0 (w 0) (w 1) (w 2) (w 3)).2.2.2 (w 0) (w 1) (w 2) (w 3)) k = 0
      rw [(e2BcSym_x (w 0) (w 1) (w 2) (w 3)).1]
      exact vec4_off1 _ hw.1 hw.2.1 hw.2.2.1 k hk
    · show vec4 (e2Hlle γ 1 0 (w 0) (w 1) (w 2) (w 3) (e2BcSym 1 0 (w 0) (w 1) (w 2) (w 3)).1
        (e2BcSym 1 0 (w 0) (w 1) (w 2) (w 3)).2.1 (e2BcSym 1 0 (w 0) (w 1) (w 2) (w 3)).2.2.1
        (e2BcSym 1 0 (w 0) (w 1) (w 2) (w 3)).2.2.2) k = 0
      rw [(e2BcSym_x (w 0) (w 1) (w 2) (w 3)).2]
      exact vec4_off1 _ hw.2.2.2.1 hw.2.2.2.2.1 hw.2.2.2.2.2 k hk
theorem euler2dFluxV_wall_y (γ : ℝ) (fl : Euler2DFlux) (w : ℕ → ℝ) (h0 : 0 < w 0) (k : ℕ) (hk : k ≠ 2) :
    euler2dFluxV γ fl 0 1 (euler2dBC γ 0 (-1) .sym w) w k = 0
    ∧ euler2dFluxV γ fl 0 1 w (euler2dBC γ 0 1 .sym w) k = 0 := by
  cases fl with
  | centered => exact euler2dCentered_wall_y γ w k hk
  | hlle =>
    have hw := e2Hlle_wall_y γ (w 0) (w 1) (w 2) (w 3) h0
    constructor
    · show vec4 (e2Hlle γ 0 1 (e2BcSym 0 (-1) (w 0) (w 1) (w 2) (w 3)).1
        (e2BcSym 0 (-1) (w 0) (w 1) (w 2) (w 3)).2.1 (e2BcSym 0 (-1) (w 0) (w 1) (w 2) (w 3)).2.2.1
        (e2BcSym 0 (-1) (w 0) (w 1) (w 2) (w 3)).2.2.2 (w 0) (w 1) (w 2) (w 3)) k = 0
      rw [(e2BcSym_y (w 0) (w 1) (w 2) (w 3)).1]
      exact vec4_off2 _ hw.1 hw.2.1 hw.2.2.1 k hk
    · show vec4 (e2Hlle γ 0 1 (w 0) (w 1) (w 2) (w 3) (e2BcSym 0 1 (w 0) (w 1) (w 2) (w 3)).1
        (e2BcSym 0 1 (w 0) (w 1) (w 2) (w 3)).2.1 (e2BcSym 0 1 (w 0) (w 1) (w 2) (w 3)).2.2.1
        (e2BcSym 0 1 (w 0) (w 1) (w 2) (w 3)).2.2.2) k = 0
      rw [(e2BcSym_y (w 0) (w 1) (w 2) (w 3)).2]
      exact vec4_off2 _ hw.2.2.2.1 hw.2.2.2.2.1 hw.2.2.2.2.2 k hk

/-! ### Euler 2D discretisations with slip walls -/

section centeredDisc
variable {α : Type} [Field α] [LinearOrder α] [IsStrictOrderedRing α] [HasSqrt α] [HasRpow α]
set_option linter.unusedSectionVars false

/-- centered flux (any ordered field, no admissibility condition): component `k` is conserved if each pair is
periodic or a pair of slip walls not normal to momentum component `k` -/
theorem euler2d_centered_walls_comp (γ : α) (D : Disc2D α ℕ) (hflux : D.flux = euler2dFluxV γ .centered)
    (hdx : D.mesh.dx ≠ 0) (hdy : D.mesh.dy ≠ 0) (q : ℕ → ℕ → ℕ → α) (k : ℕ)
    (hx : D.bcx = BCPair.periodic
      ∨ (D.bcx = BCPair.open (euler2dBC γ (-1) 0 .sym) (euler2dBC γ 1 0 .sym) ∧ k ≠ 1))
    (hy : D.bcy = BCPair.periodic
      ∨ (D.bcy = BCPair.open (euler2dBC γ 0 (-1) .sym) (euler2dBC γ 0 1 .sym) ∧ k ≠ 2)) :
    ∑ j ∈ range D.mesh.ny, ∑ i ∈ range D.mesh.nx, D.rhs q k i j = 0 := by
  apply closed2d D hdx hdy q k
  · rcases hx with hper | ⟨hbc, hk⟩
    · exact Or.inl hper
    · right
      intro j _
      obtain ⟨e0, en⟩ := xFlux_open D _ _ hbc (nx_ne_zero_of_dx D hdx) q k j
      rw [e0, en, hflux]
      exact ⟨(euler2dCentered_wall_x γ _ k hk).1, (euler2dCentered_wall_x γ _ k hk).2⟩
  · rcases hy with hper | ⟨hbc, hk⟩
    · exact Or.inl hper
    · right
      intro i _
      obtain ⟨e0, en⟩ := yFlux_open D _ _ hbc (ny_ne_zero_of_dy D hdy) q k i
      rw [e0, en, hflux]
      exact ⟨(euler2dCentered_wall_y γ _ k hk).1, (euler2dCentered_wall_y γ _ k hk).2⟩

end centeredDisc

/-- slip walls on the left and right sides, the extrapolated densities at the wall faces are positive
(needed by HLLE only, through `sqrt (ρR/ρL)`) -/
def WallX (γ : ℝ) (D : Disc2D ℝ ℕ) (q : ℕ → ℕ → ℕ → ℝ) : Prop :=
  D.bcx = BCPair.open (euler2dBC γ (-1) 0 .sym) (euler2dBC γ 1 0 .sym)
  ∧ ∀ j, j < D.mesh.ny → 0 < D.xR0 q 0 0 j ∧ 0 < D.xL0 q 0 D.mesh.nx j
/-- slip walls on the bottom and top sides -/
def WallY (γ : ℝ) (D : Disc2D ℝ ℕ) (q : ℕ → ℕ → ℕ → ℝ) : Prop :=
  D.bcy = BCPair.open (euler2dBC γ 0 (-1) .sym) (euler2dBC γ 0 1 .sym)
  ∧ ∀ i, i < D.mesh.nx → 0 < D.yR0 q 0 i 0 ∧ 0 < D.yL0 q 0 i D.mesh.ny

theorem wallX_closed (γ : ℝ) (fl : Euler2DFlux) (D : Disc2D ℝ ℕ) (hflux : D.flux = euler2dFluxV γ fl)
    (hnx : D.mesh.nx ≠ 0) (q : ℕ → ℕ → ℕ → ℝ) (hw : WallX γ D q) (k : ℕ) (hk : k ≠ 1) : ClosedX D q k := by
  right
  intro j hj
  obtain ⟨hbc, hadm⟩ := hw
  obtain ⟨e0, en⟩ := xFlux_open D _ _ hbc hnx q k j
  rw [e0, en, hflux]
  exact ⟨(euler2dFluxV_wall_x γ fl (fun l => D.xR0 q l 0 j) (hadm j hj).1 k hk).1,
    (euler2dFluxV_wall_x γ fl (fun l => D.xL0 q l D.mesh.nx j) (hadm j hj).2 k hk).2⟩
theorem wallY_closed (γ : ℝ) (fl : Euler2DFlux) (D : Disc2D ℝ ℕ) (hflux : D.flux = euler2dFluxV γ fl)
    (hny : D.mesh.ny ≠ 0) (q : ℕ → ℕ → ℕ → ℝ) (hw : WallY γ D q) (k : ℕ) (hk : k ≠ 2) : ClosedY D q k := by
  right
  intro i hi
  obtain ⟨hbc, hadm⟩ := hw
  obtain ⟨e0, en⟩ := yFlux_open D _ _ hbc hny q k i
  rw [e0, en, hflux]
  exact ⟨(euler2dFluxV_wall_y γ fl (fun l => D.yR0 q l i 0) (hadm i hi).1 k hk).1,
    (euler2dFluxV_wall_y γ fl (fun l => D.yL0 q l i D.mesh.ny) (hadm i hi).2 k hk).2⟩

/-- component-wise statement (centered or HLLE, any `cons2prim`, any scheme, any `γ`): component `k` is
conserved if each pair of sides is periodic or a pair of slip walls not normal to momentum component `k` -/
theorem euler2d_walls_comp (γ : ℝ) (fl : Euler2DFlux) (D : Disc2D ℝ ℕ) (hflux : D.flux = euler2dFluxV γ fl)
    (hdx : D.mesh.dx ≠ 0) (hdy : D.mesh.dy ≠ 0) (q : ℕ → ℕ → ℕ → ℝ) (k : ℕ)
    (hx : D.bcx = BCPair.periodic ∨ (WallX γ D q ∧ k ≠ 1))
    (hy : D.bcy = BCPair.periodic ∨ (WallY γ D q ∧ k ≠ 2)) :
    ∑ j ∈ range D.mesh.ny, ∑ i ∈ range D.mesh.nx, D.rhs q k i j = 0 := by
  apply closed2d D hdx hdy q k
  · rcases hx with hper | ⟨hw, hk⟩
    · exact Or.inl hper
    · exact wallX_closed γ fl D hflux (nx_ne_zero_of_dx D hdx) q hw k hk
  · rcases hy with hper | ⟨hw, hk⟩
    · exact Or.inl hper
    · exact wallY_closed γ fl D hflux (ny_ne_zero_of_dy D hdy) q hw k hk

/-- **mass (`k = 0`) and energy (`k = 3`) are conserved** by the Euler 2D discretisation whose sides are
periodic or slip walls (box, channel, or fully periodic) -/
theorem euler2d_sym_walls_conserve (γ : ℝ) (fl : Euler2DFlux) (D : Disc2D ℝ ℕ)
    (hflux : D.flux = euler2dFluxV γ fl) (hdx : D.mesh.dx ≠ 0) (hdy : D.mesh.dy ≠ 0) (q : ℕ → ℕ → ℕ → ℝ)
    (hx : D.bcx = BCPair.periodic ∨ WallX γ D q) (hy : D.bcy = BCPair.periodic ∨ WallY γ D q) :
    ∑ j ∈ range D.mesh.ny, ∑ i ∈ range D.mesh.nx, D.rhs q 0 i j = 0
    ∧ ∑ j ∈ range D.mesh.ny, ∑ i ∈ range D.mesh.nx, D.rhs q 3 i j = 0 :=
  ⟨euler2d_walls_comp γ fl D hflux hdx hdy q 0 (hx.imp id fun h => ⟨h, by decide⟩)
      (hy.imp id fun h => ⟨h, by decide⟩),
    euler2d_walls_comp γ fl D hflux hdx hdy q 3 (hx.imp id fun h => ⟨h, by decide⟩)
      (hy.imp id fun h => ⟨h, by decide⟩)⟩

/-- a channel (walls on one pair, periodic on the other) also conserves the momentum along the walls -/
theorem euler2d_channel_momentum (γ : ℝ) (fl : Euler2DFlux) (D : Disc2D ℝ ℕ)
    (hflux : D.flux = euler2dFluxV γ fl) (hdx : D.mesh.dx ≠ 0) (hdy : D.mesh.dy ≠ 0) (q : ℕ → ℕ → ℕ → ℝ) :
    (WallX γ D q → D.bcy = BCPair.periodic →
        ∑ j ∈ range D.mesh.ny, ∑ i ∈ range D.mesh.nx, D.rhs q 2 i j = 0)
    ∧ (D.bcx = BCPair.periodic → WallY γ D q →
        ∑ j ∈ range D.mesh.ny, ∑ i ∈ range D.mesh.nx, D.rhs q 1 i j = 0) :=
  ⟨fun hw hper => euler2d_walls_comp γ fl D hflux hdx hdy q 2 (Or.inr ⟨hw, by decide⟩) (Or.inl hper),
    fun hper hw => euler2d_walls_comp γ fl D hflux hdx hdy q 1 (Or.inl hper) (Or.inr ⟨hw, by decide⟩)⟩

/-! ### non-vacuity -/

/-- a closed box, 3 × 2 cells, HLLE, first order, non-uniform data with positive density -/
noncomputable def exBox : Disc2D ℝ ℕ :=
  { mesh := { nx := 3, ny := 2, lx := 3, ly := 1 }, scheme := .first,
    bcx := .open (euler2dBC (7/5) (-1) 0 .sym) (euler2dBC (7/5) 1 0 .sym),
    bcy := .open (euler2dBC (7/5) 0 (-1) .sym) (euler2dBC (7/5) 0 1 .sym),
    c2p := euler2dC2P (7/5), flux := euler2dFluxV (7/5) .hlle }
def exBoxQ : ℕ → ℕ → ℕ → ℝ := fun k i j =>
  match k with | 0 => 1 + i + j | 1 => (i : ℝ) - j | 2 => (j : ℝ) | _ => 10 + i

theorem exBox_pdata0 (i j : ℕ) : exBox.pdata exBoxQ 0 i j = 1 + i + j := rfl

example : ∑ j ∈ range 2, ∑ i ∈ range 3, exBox.rhs exBoxQ 0 i j = 0
    ∧ ∑ j ∈ range 2, ∑ i ∈ range 3, exBox.rhs exBoxQ 3 i j = 0 := by
  have hdx : exBox.mesh.dx ≠ 0 := by norm_num [exBox, Mesh2D.dx]
  have hdy : exBox.mesh.dy ≠ 0 := by norm_num [exBox, Mesh2D.dy]
  refine euler2d_sym_walls_conserve (7/5) .hlle exBox rfl hdx hdy exBoxQ (Or.inr ⟨rfl, ?_⟩) (Or.inr ⟨rfl, ?_⟩)
  · intro j _
    have h1 : exBox.xR0 exBoxQ 0 0 j = 1 + (0 : ℕ) + j := by
      simp only [Disc2D.xR0, exBox_pdata0]
      norm_num [exBox, Scheme2D.km, Scheme2D.kp]
    have h2 : exBox.xL0 exBoxQ 0 exBox.mesh.nx j = 1 + (2 : ℕ) + j := by
      simp only [Disc2D.xL0, exBox_pdata0]
      norm_num [exBox, Scheme2D.km, Scheme2D.kp]
    rw [h1, h2]
    constructor <;> positivity
  · intro i _
    have h1 : exBox.yR0 exBoxQ 0 i 0 = 1 + i + (0 : ℕ) := by
      simp only [Disc2D.yR0, exBox_pdata0]
      norm_num [exBox, Scheme2D.km, Scheme2D.kp]
    have h2 : exBox.yL0 exBoxQ 0 i exBox.mesh.ny = 1 + i + (1 : ℕ) := by
      simp only [Disc2D.yL0, exBox_pdata0]
      norm_num [exBox, Scheme2D.km, Scheme2D.kp]
    rw [h1, h2]
    constructor <;> positivity

/-- a channel with the centered flux over `ℚ`, κ = 1/3, arbitrary data (no admissibility needed): mass,
y-momentum and energy -/
example (q : ℕ → ℕ → ℕ → ℚ) (k : ℕ) (hk : k ≠ 1) :
    ∑ j ∈ range 3, ∑ i ∈ range 4,
      (Disc2D.rhs (α := ℚ)
        { mesh := { nx := 4, ny := 3, lx := 2, ly := 1 }, scheme := .kappa (1/3),
          bcx := .open (euler2dBC (7/5) (-1) 0 .sym) (euler2dBC (7/5) 1 0 .sym), bcy := .periodic,
          c2p := euler2dC2P (7/5), flux := euler2dFluxV (7/5) .centered } q k i j) = 0 :=
  euler2d_centered_walls_comp (7/5) _ rfl (by norm_num [Mesh2D.dx]) (by norm_num [Mesh2D.dy]) q k
    (Or.inr ⟨rfl, hk⟩) (Or.inl rfl)

/-- the hypothesis on the boundary fluxes cannot be dropped: the x-momentum is **not** conserved between slip
walls (the wall pressure acts on it) — two cells at rest with pressures 1 and 2, centered flux, walls
left/right: the two wall fluxes are the two pressures -/
example :
    ∑ j ∈ range 1, ∑ i ∈ range 2,
      (Disc2D.rhs (α := ℚ)
        { mesh := { nx := 2, ny := 1, lx := 2, ly := 1 }, scheme := .first,
          bcx := .open (euler2dBC (7/5) (-1) 0 .sym) (euler2dBC (7/5) 1 0 .sym), bcy := .periodic,
          c2p := fun w => w, flux := euler2dFluxV (7/5) .centered }
        (fun k i _ => match k with | 0 => 1 | 1 => 0 | 2 => 0 | _ => if i = 0 then 1 else 2) 1 i j) ≠ 0 := by
  simp [Finset.sum_range_succ, Disc2D.rhs, Disc2D.xFlux, Disc2D.yFlux, Disc2D.xL, Disc2D.xR, Disc2D.yL,
    Disc2D.yR, Disc2D.xL0, Disc2D.xR0, Disc2D.yL0, Disc2D.yR0, Disc2D.pdata, Disc2D.xgrad, Disc2D.ygrad,
    Scheme2D.km, Scheme2D.kp, Mesh2D.dx, Mesh2D.dy, BCPair.isPer, euler2dFluxV, euler2dBC, vec4, e2Centered,
    e2BcSym]
  norm_num

end Flowdyn.C01
