/-
C02 — numerical fluxes are consistent, mirror-symmetric and upwind.
Part A: convection, Burgers, shallow water, Euler centered / centered-massflow / HLLE.
Part B: HLLC and the 2D Euler fluxes (both face directions, transposition, reduction to 1D).
Part C: upwind clause of the 2D HLLE flux for any normal; orientation (flip) and rotation laws.
-/
import Flowdyn.Props.C02a
import Flowdyn.Props.C02b
import Flowdyn.Props.C02c
