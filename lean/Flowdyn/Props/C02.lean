/-
C02 — numerical fluxes are consistent, mirror-symmetric and upwind.
Part A: convection, Burgers, shallow water, Euler centered / centered-massflow / HLLE.
Part B: HLLC and the 2D Euler fluxes (both face directions, transposition, reduction to 1D).
-/
import Flowdyn.Props.C02a
import Flowdyn.Props.C02b
