import Flowdyn.Model.Kernels.Scalar
namespace Flowdyn.C02
end Flowdyn.C02
