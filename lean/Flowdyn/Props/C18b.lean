/-
C18 (part B) — the wave speed in the time step is the spectral radius of the derivative of the model's flux.

`C18.lean` shows `dt = CFL·Δ/λ` and exhibits eigenpairs of closed-form matrices `swJacMul`, `eJacMul`.  Here:
  * `swFluxC g`, `eFluxC γ`: the model's flux as a function of the *conservative* state (`cons2prim` followed by
    the physical flux `swPhys`/`ePhys`), equal to every numerical flux of the model evaluated on two equal states
    (`…_eq_centered`, `…_eq_rusanov`, `…_eq_hll`, `…_eq_hlle`, `…_eq_hllc`, through the consistency theorems of C02);
  * `swFluxC_hasFDerivAt`, `eFluxC_hasFDerivAt`: the closed-form matrices are the Fréchet derivatives of these maps
    at every state with `h ≠ 0` resp. `ρ ≠ 0` (and `γ ≠ 1`); `swFluxC_partial`, `eFluxC_partial`: entry by entry,
    as partial derivatives;
  * `sw_isEig`, `e_isEig` (and `sw_charpoly`, `e_charpoly`): the eigenvalues are exactly `u ∓ c` (and `u`);
  * `sw_spectral`, `e_spectral`, `conv_spectral`, `burgers_spectral`: derivative, eigenvalues, spectral radius
    `|u| + c` (`|a|`, `|u|`) and the model's time step `cfl·dx / spectral radius` in one statement;
  * `sw_spectrum`, `e_spectrum`: the same eigenvalue sets as Mathlib's `spectrum`.
Not covered: the 2D Euler model (`e2Dt` uses `|V| + c`, an upper bound of the directional spectral radii).
-/
import Flowdyn.Props.C18
import Flowdyn.Props.C02a
import Flowdyn.Props.C02b
import Mathlib.Analysis.Calculus.Deriv.Mul
import Mathlib.Analysis.Calculus.Deriv.Inv
import Mathlib.Analysis.Calculus.Deriv.Pow
import Mathlib.Analysis.Calculus.Deriv.Add
import Mathlib.Analysis.Calculus.FDeriv.Prod
import Mathlib.Analysis.Calculus.FDeriv.Mul
import Mathlib.Analysis.Calculus.FDeriv.Pow
import Mathlib.LinearAlgebra.Eigenspace.Basic

namespace Flowdyn.C18
open Flowdyn

/-- closes the side goals `closed form = derivative produced by the calculus lemmas` -/
local macro "dclose" : tactic =>
  `(tactic| (try simp only [show (2 - 1 : ℕ) = 1 from rfl, show (3 - 1 : ℕ) = 2 from rfl, pow_one, Nat.cast_ofNat]
             first | (field_simp; done) | (field_simp; ring) | ring))

/-- `l` is an eigenvalue of the map `J`: there is a non-zero `v` with `J v = l • v` -/
def IsEig {V : Type} [Zero V] [SMul ℝ V] (J : V → V) (l : ℝ) : Prop := ∃ v : V, v ≠ 0 ∧ J v = l • v

/-- spectral radius: the largest `|l|` over the eigenvalues `l` of `J` -/
def IsSpecRadius {V : Type} [Zero V] [SMul ℝ V] (J : V → V) (ρ : ℝ) : Prop :=
  IsGreatest {s : ℝ | ∃ l, IsEig J l ∧ s = |l|} ρ

/-- `IsEig` of a continuous linear map is Mathlib's `Module.End.HasEigenvalue` of the underlying endomorphism -/
theorem isEig_iff_hasEigenvalue {V : Type} [AddCommGroup V] [Module ℝ V] [TopologicalSpace V]
    (J : V →L[ℝ] V) (l : ℝ) : IsEig (⇑J) l ↔ Module.End.HasEigenvalue (J : V →ₗ[ℝ] V) l := by
  constructor
  · rintro ⟨v, hv, h⟩
    exact Module.End.hasEigenvalue_of_hasEigenvector ⟨Module.End.mem_eigenspace_iff.mpr h, hv⟩
  · intro h
    obtain ⟨v, hv⟩ := h.exists_hasEigenvector
    exact ⟨v, hv.2, hv.apply_eq_smul⟩

/-! ### scalar models -/

theorem scalar_isEig (a l : ℝ) : IsEig (fun v : ℝ => a * v) l ↔ l = a := by
  constructor
  · rintro ⟨v, hv, h⟩
    have h' : (a - l) * v = 0 := by
      simp only [smul_eq_mul] at h
      linear_combination h
    rcases mul_eq_zero.mp h' with h0 | h0
    · linarith
    · exact absurd h0 hv
  · rintro rfl
    exact ⟨1, one_ne_zero, by simp⟩

theorem scalar_specRadius (a : ℝ) : IsSpecRadius (fun v : ℝ => a * v) |a| := by
  constructor
  · exact ⟨a, (scalar_isEig a a).mpr rfl, rfl⟩
  · rintro s ⟨l, hl, rfl⟩
    rw [(scalar_isEig a l).mp hl]

theorem conv_spectral (a cfl dx u : ℝ) :
    HasDerivAt (fun t => convFlux a t t) a u
    ∧ (∀ l, IsEig (fun v : ℝ => a * v) l ↔ l = a)
    ∧ IsSpecRadius (fun v : ℝ => a * v) |a|
    ∧ convDt a cfl dx = cfl * dx / |a| := by
  refine ⟨?_, scalar_isEig a, scalar_specRadius a, convDt_formula a cfl dx⟩
  have h : (fun t => convFlux a t t) = fun t => a * t := by
    funext t; rw [C02.conv_consistent]; rfl
  rw [h]
  simpa using (hasDerivAt_id u).const_mul a

theorem burgers_spectral (cfl dx u : ℝ) :
    HasDerivAt (fun t => burgersFlux t t) u u
    ∧ (∀ l, IsEig (fun v : ℝ => u * v) l ↔ l = u)
    ∧ IsSpecRadius (fun v : ℝ => u * v) |u|
    ∧ burgersDt cfl dx u = cfl * dx / |u| := by
  refine ⟨?_, scalar_isEig u, scalar_specRadius u, burgersDt_formula cfl dx u⟩
  have h : (fun t : ℝ => burgersFlux t t) = fun t => t ^ 2 / 2 := by
    funext t; rw [C02.burgers_consistent]; rfl
  rw [h]
  refine (((hasDerivAt_id u).fun_pow 2).div_const 2).congr_deriv ?_
  simp

/-- non-vacuity: `a = -3`, `u = 5`; Burgers at `u = -2` -/
example : HasDerivAt (fun t : ℝ => convFlux (-3) t t) (-3) 5 ∧ IsSpecRadius (fun v : ℝ => -3 * v) 3
    ∧ convDt (-3 : ℝ) (1/2) 1 = 1/6 := by
  obtain ⟨h1, -, h3, h4⟩ := conv_spectral (-3) (1/2) 1 5
  refine ⟨h1, by simpa using h3, ?_⟩
  rw [h4]; norm_num
example : HasDerivAt (fun t : ℝ => burgersFlux t t) (-2) (-2) ∧ IsSpecRadius (fun v : ℝ => -2 * v) 2
    ∧ burgersDt (1/2 : ℝ) 1 (-2) = 1/4 := by
  obtain ⟨h1, -, h3, h4⟩ := burgers_spectral (1/2) 1 (-2)
  refine ⟨h1, by simpa using h3, ?_⟩
  rw [h4]; norm_num

/-! ### shallow water -/

/-- the model's flux as a function of the conservative state `(h, q)`: `cons2prim` then the physical flux -/
noncomputable def swFluxC (g : ℝ) (U : ℝ × ℝ) : ℝ × ℝ :=
  swPhys g (swCons2prim U.1 U.2).1 (swCons2prim U.1 U.2).2

theorem swFluxC_eq_centered (g : ℝ) (U : ℝ × ℝ) :
    swFluxC g U = (let W := swCons2prim U.1 U.2; swCentered g W.1 W.2 W.1 W.2) := by
  simp only [swFluxC, C02.swCentered_consistent]

theorem swFluxC_eq_rusanov (g : ℝ) (U : ℝ × ℝ) :
    swFluxC g U = (let W := swCons2prim U.1 U.2; swRusanov g W.1 W.2 W.1 W.2) := by
  simp only [swFluxC, C02.swRusanov_consistent]

theorem swFluxC_eq_hll (g : ℝ) (U : ℝ × ℝ) (hg : 0 < g) (hh : 0 < U.1) :
    swFluxC g U = (let W := swCons2prim U.1 U.2; swHll g W.1 W.2 W.1 W.2) := by
  simp only [swFluxC]
  rw [C02.swHll_consistent g _ _ hg (by simpa [swCons2prim] using hh)]

example : swFluxC 10 (2, 6) = swHll 10 2 3 2 3 := by
  have h := swFluxC_eq_hll 10 (2, 6) (by norm_num) (by norm_num)
  simp only [swCons2prim] at h
  norm_num at h
  exact h

theorem swFluxC_prim (g h u : ℝ) (hh : h ≠ 0) : swFluxC g (swPrim2cons h u) = swPhys g h u := by
  simp only [swFluxC, swPrim2cons, swCons2prim]
  rw [mul_div_cancel_left₀ u hh]

/-- the closed-form Jacobian of C18 as a continuous linear map -/
noncomputable def swJacCLM (g h u : ℝ) : ℝ × ℝ →L[ℝ] ℝ × ℝ :=
  (ContinuousLinearMap.snd ℝ ℝ ℝ).prod
    ((g * h - u ^ 2) • ContinuousLinearMap.fst ℝ ℝ ℝ + (2 * u) • ContinuousLinearMap.snd ℝ ℝ ℝ)

theorem swJacCLM_apply (g h u : ℝ) (v : ℝ × ℝ) : swJacCLM g h u v = swJacMul g h u v := by
  simp [swJacCLM, swJacMul]

/-- every entry of the closed-form Jacobian is the corresponding partial derivative of the flux -/
theorem swFluxC_partial (g h q : ℝ) (hh : h ≠ 0) :
    (let J := swJacMul g h (q / h)
     HasDerivAt (fun t => (swFluxC g (t, q)).1) (J (1, 0)).1 h
     ∧ HasDerivAt (fun t => (swFluxC g (h, t)).1) (J (0, 1)).1 q
     ∧ HasDerivAt (fun t => (swFluxC g (t, q)).2) (J (1, 0)).2 h
     ∧ HasDerivAt (fun t => (swFluxC g (h, t)).2) (J (0, 1)).2 q) := by
  simp only [swFluxC, swPhys, swCons2prim, swJacMul]
  have hid : ∀ x : ℝ, HasDerivAt (fun t : ℝ => t) 1 x := fun x => hasDerivAt_id x
  refine ⟨?_, ?_, ?_, ?_⟩
  · refine ((hid h).fun_mul ((hasDerivAt_const h q).fun_div (hid h) hh)).congr_deriv ?_
    dclose
  · refine (((hid q).div_const h).const_mul h).congr_deriv ?_
    dclose
  · refine (((hid h).fun_mul (((hasDerivAt_const h q).fun_div (hid h) hh).fun_pow 2)).fun_add
      ((((hid h).fun_pow 2).const_mul g).div_const 2)).congr_deriv ?_
    dclose
  · refine (((((hid q).div_const h).fun_pow 2).const_mul h).fun_add
      (hasDerivAt_const q (g * h ^ 2 / 2))).congr_deriv ?_
    dclose

/-- non-vacuity: `g = 10`, `(h, q) = (2, 6)`, `u = 3`: Jacobian `[[0, 1], [11, 6]]` -/
example : HasDerivAt (fun t => (swFluxC 10 (t, 6)).1) 0 2 ∧ HasDerivAt (fun t => (swFluxC 10 (2, t)).1) 1 6
    ∧ HasDerivAt (fun t => (swFluxC 10 (t, 6)).2) 11 2 ∧ HasDerivAt (fun t => (swFluxC 10 (2, t)).2) 6 6 := by
  have h := swFluxC_partial 10 2 6 (by norm_num)
  simp only [swJacMul] at h
  norm_num at h
  exact h

/-- the closed-form Jacobian is the (Fréchet) derivative of the flux at every state with `h ≠ 0` -/
theorem swFluxC_hasFDerivAt (g h q : ℝ) (hh : h ≠ 0) :
    HasFDerivAt (swFluxC g) (swJacCLM g h (q / h)) (h, q) := by
  have h1 : HasFDerivAt (fun U : ℝ × ℝ => U.1) (ContinuousLinearMap.fst ℝ ℝ ℝ) (h, q) := hasFDerivAt_fst
  have h2 : HasFDerivAt (fun U : ℝ × ℝ => U.2) (ContinuousLinearMap.snd ℝ ℝ ℝ) (h, q) := hasFDerivAt_snd
  have hi : HasFDerivAt (fun U : ℝ × ℝ => (U.1)⁻¹) _ (h, q) :=
    (hasDerivAt_inv hh).comp_hasFDerivAt (h, q) h1
  have hu := h2.fun_mul hi
  have hF := (h1.fun_mul hu).prodMk
    ((h1.fun_mul (hu.pow 2)).fun_add (((h1.pow 2).const_mul g).mul_const (1 / 2)))
  have hfun : swFluxC g = fun U : ℝ × ℝ => (U.1 * (U.2 * (U.1)⁻¹),
      U.1 * (U.2 * (U.1)⁻¹) ^ 2 + g * U.1 ^ 2 * (1 / 2)) := by
    funext U
    simp only [swFluxC, swPhys, swCons2prim]
    refine Prod.ext ?_ ?_ <;> simp only <;> ring
  rw [hfun]
  refine hF.congr_fderiv ?_
  refine ContinuousLinearMap.ext fun v => ?_
  rw [swJacCLM_apply]
  refine Prod.ext ?_ ?_ <;> simp [swJacMul] <;> field_simp <;> ring

/-- characteristic polynomial of the 2×2 Jacobian, `det (J - l I)` written out, entries read off `swJacMul` -/
theorem sw_charpoly (g h u l : ℝ) (hgh : 0 ≤ g * h) :
    (let c := Real.sqrt (g * h)
     let J := swJacMul g h u
     ((J (1, 0)).1 - l) * ((J (0, 1)).2 - l) - (J (0, 1)).1 * (J (1, 0)).2 = (l - (u - c)) * (l - (u + c))) := by
  intro c J
  have hc2 : c ^ 2 = g * h := Real.sq_sqrt hgh
  simp only [J, swJacMul]
  linear_combination hc2

/-- the eigenvalues of the Jacobian are exactly `u - c` and `u + c` -/
theorem sw_isEig (g h u l : ℝ) (hg : 0 < g) (hh : 0 < h) :
    IsEig (swJacMul g h u) l ↔ l = u - Real.sqrt (g * h) ∨ l = u + Real.sqrt (g * h) := by
  have hc2 : Real.sqrt (g * h) ^ 2 = g * h := Real.sq_sqrt (mul_pos hg hh).le
  have hE := sw_eigen_partial g h u hg hh
  simp only at hE
  obtain ⟨hplus, hminus, -⟩ := hE
  set c := Real.sqrt (g * h) with hc
  constructor
  · rintro ⟨⟨a, b⟩, hv, hJ⟩
    simp only [swJacMul, Prod.smul_mk, smul_eq_mul, Prod.mk.injEq] at hJ
    obtain ⟨e1, e2⟩ := hJ
    have ha : a ≠ 0 := by
      intro ha
      apply hv
      rw [ha, mul_zero] at e1
      rw [ha, e1]; rfl
    have key : a * ((l - (u - c)) * (l - (u + c))) = 0 := by
      linear_combination (-1 : ℝ) * e2 + (2 * u - l) * e1 - a * hc2
    rcases mul_eq_zero.mp key with h0 | h0
    · exact absurd h0 ha
    · rcases mul_eq_zero.mp h0 with h1 | h1
      · left; linarith
      · right; linarith
  · rintro (rfl | rfl)
    · refine ⟨(1, u - c), by simp, ?_⟩
      rw [hminus]; simp [Prod.smul_mk]
    · refine ⟨(1, u + c), by simp, ?_⟩
      rw [hplus]; simp [Prod.smul_mk]

/-- if the eigenvalues of `J` are `u - c`, `u + c` and possibly `u`, with `c ≥ 0`, its spectral radius is `|u| + c` -/
theorem specRadius_of_pm {V : Type} [Zero V] [SMul ℝ V] (J : V → V) (u c : ℝ) (hc : 0 ≤ c)
    (hm : IsEig J (u - c)) (hp : IsEig J (u + c))
    (hall : ∀ l, IsEig J l → l = u - c ∨ l = u ∨ l = u + c) : IsSpecRadius J (|u| + c) := by
  constructor
  · rcases le_total 0 u with hu | hu
    · exact ⟨u + c, hp, by rw [abs_of_nonneg hu, abs_of_nonneg (by linarith)]⟩
    · exact ⟨u - c, hm, by rw [abs_of_nonpos hu, abs_of_nonpos (by linarith)]; ring⟩
  · rintro s ⟨l, hl, rfl⟩
    have h1 := le_abs_self u
    have h2 := neg_abs_le u
    rcases hall l hl with rfl | rfl | rfl
    · exact abs_le.mpr ⟨by linarith, by linarith⟩
    · linarith
    · exact abs_le.mpr ⟨by linarith, by linarith⟩

/-- **C18, shallow water.**  At every state `(h, u)`, `h > 0`: the map `swJacCLM g h u` (= `swJacMul g h u` of
`sw_eigen_partial`) is the derivative at `U = prim2cons (h, u)` of the model's flux in conservative variables;
its eigenvalues are exactly `u - c`, `u + c` with `c = √(g h)`; its spectral radius is `|u| + c`; and the time
step of the model is `cfl·dx` over this spectral radius. -/
theorem sw_spectral (g cfl dx h u : ℝ) (hg : 0 < g) (hh : 0 < h) :
    (let c := Real.sqrt (g * h)
     let U := swPrim2cons h u
     let J := swJacCLM g h u
     HasFDerivAt (swFluxC g) J U
     ∧ (∀ v, J v = swJacMul g h u v)
     ∧ (∀ l, IsEig J l ↔ l = u - c ∨ l = u + c)
     ∧ IsSpecRadius J (|u| + c)
     ∧ swDt g cfl dx U.1 U.2 = cfl * dx / (|u| + c)) := by
  intro c U J
  have hJ : (J : ℝ × ℝ → ℝ × ℝ) = swJacMul g h u := funext (swJacCLM_apply g h u)
  have hc0 : 0 ≤ c := Real.sqrt_nonneg _
  have heig : ∀ l, IsEig J l ↔ l = u - c ∨ l = u + c := by
    intro l; rw [hJ]; exact sw_isEig g h u l hg hh
  refine ⟨?_, swJacCLM_apply g h u, heig, ?_, swDt_formula g cfl dx h u hh⟩
  · have := swFluxC_hasFDerivAt g h (h * u) hh.ne'
    rwa [mul_div_cancel_left₀ u hh.ne'] at this
  · refine specRadius_of_pm _ u c hc0 ((heig _).mpr (Or.inl rfl)) ((heig _).mpr (Or.inr rfl)) ?_
    intro l hl
    rcases (heig l).mp hl with h1 | h1
    · exact Or.inl h1
    · exact Or.inr (Or.inr h1)

/-- non-vacuity: `g = 1`, `h = 4`, `u = 1`: `c = 2`, eigenvalues `-1, 3`, `dt = cfl·dx/3` -/
example (cfl dx : ℝ) : swDt 1 cfl dx 4 4 = cfl * dx / 3 ∧ IsSpecRadius (swJacMul 1 4 1) 3
    ∧ HasFDerivAt (swFluxC 1) (swJacCLM 1 4 1) (4, 4) := by
  have h := sw_spectral 1 cfl dx 4 1 one_pos (by norm_num)
  have hs : Real.sqrt (1 * 4) = 2 := by
    rw [show (1 * 4 : ℝ) = 2 ^ 2 by norm_num]; exact Real.sqrt_sq (by norm_num)
  simp only [hs, swPrim2cons, abs_one] at h
  obtain ⟨h1, h2, -, h4, h5⟩ := h
  norm_num at h1 h4 h5
  have hJ : (swJacCLM 1 4 1 : ℝ × ℝ → ℝ × ℝ) = swJacMul 1 4 1 := funext h2
  rw [hJ] at h4
  exact ⟨h5, h4, h1⟩

/-! ### Euler -/

/-- the model's flux as a function of the conservative state `(ρ, m, E)`: `cons2prim` then the physical flux -/
noncomputable def eFluxC (γ : ℝ) (Q : ℝ × ℝ × ℝ) : ℝ × ℝ × ℝ :=
  ePhys γ (eCons2prim γ Q.1 Q.2.1 Q.2.2).1 (eCons2prim γ Q.1 Q.2.1 Q.2.2).2.1 (eCons2prim γ Q.1 Q.2.1 Q.2.2).2.2

theorem eFluxC_eq_centered (γ : ℝ) (Q : ℝ × ℝ × ℝ) :
    eFluxC γ Q = (let W := eCons2prim γ Q.1 Q.2.1 Q.2.2; eCentered γ W.1 W.2.1 W.2.2 W.1 W.2.1 W.2.2) := by
  simp only [eFluxC, C02.eCentered_consistent]

theorem eFluxC_eq_centeredMassflow (γ : ℝ) (Q : ℝ × ℝ × ℝ) :
    eFluxC γ Q
      = (let W := eCons2prim γ Q.1 Q.2.1 Q.2.2; eCenteredMassflow γ W.1 W.2.1 W.2.2 W.1 W.2.1 W.2.2) := by
  simp only [eFluxC, C02.eCenteredMassflow_consistent]

theorem eFluxC_eq_hlle (γ : ℝ) (Q : ℝ × ℝ × ℝ) (hγ : 1 < γ) (hr : 0 < Q.1)
    (hp : 0 < ePressure γ Q.1 Q.2.1 Q.2.2) :
    eFluxC γ Q = (let W := eCons2prim γ Q.1 Q.2.1 Q.2.2; eHlle γ W.1 W.2.1 W.2.2 W.1 W.2.1 W.2.2) := by
  simp only [eFluxC]
  rw [C02.eHlle_consistent γ _ _ _ hγ (by simpa [eCons2prim] using hr) (by simpa [eCons2prim] using hp)]

theorem eFluxC_eq_hllc (γ : ℝ) (Q : ℝ × ℝ × ℝ) (hγ : 1 < γ) (hr : 0 < Q.1)
    (hp : 0 < ePressure γ Q.1 Q.2.1 Q.2.2) :
    eFluxC γ Q = (let W := eCons2prim γ Q.1 Q.2.1 Q.2.2; eHllc γ W.1 W.2.1 W.2.2 W.1 W.2.1 W.2.2) := by
  simp only [eFluxC]
  rw [C02.eHllc_consistent γ _ _ _ hγ (by simpa [eCons2prim] using hr) (by simpa [eCons2prim] using hp)]

/-- the hypotheses are satisfiable: `γ = 7/5`, `Q = (1, 2, 53/14)` has pressure `5/7` -/
example : eFluxC (7/5) (1, 2, 53/14) = eHlle (7/5) 1 2 (5/7) 1 2 (5/7)
    ∧ eFluxC (7/5) (1, 2, 53/14) = eHllc (7/5) 1 2 (5/7) 1 2 (5/7) := by
  have hp : ePressure (7/5 : ℝ) 1 2 (53/14) = 5/7 := by simp only [ePressure, eKinetic]; norm_num
  have h1 := eFluxC_eq_hlle (7/5) (1, 2, 53/14) (by norm_num) (by norm_num) (by rw [hp]; norm_num)
  have h2 := eFluxC_eq_hllc (7/5) (1, 2, 53/14) (by norm_num) (by norm_num) (by rw [hp]; norm_num)
  simp only [eCons2prim, hp] at h1 h2
  norm_num at h1 h2
  exact ⟨h1, h2⟩

/-- `cons2prim` inverts `prim2cons` -/
theorem eCons2prim_prim2cons (γ r u p : ℝ) (hγ : γ - 1 ≠ 0) (hr : r ≠ 0) :
    (let Q := ePrim2cons γ r u p; eCons2prim γ Q.1 Q.2.1 Q.2.2) = (r, u, p) := by
  simp only [ePrim2cons, eCons2prim, ePressure, eKinetic]
  refine Prod.ext rfl (Prod.ext ?_ ?_) <;> simp only
  · rw [mul_div_cancel_left₀ u hr]
  · field_simp; ring

theorem eFluxC_prim (γ r u p : ℝ) (hγ : γ - 1 ≠ 0) (hr : r ≠ 0) :
    eFluxC γ (ePrim2cons γ r u p) = ePhys γ r u p := by
  have h := eCons2prim_prim2cons γ r u p hγ hr
  simp only at h
  simp only [eFluxC, h]

/-- the closed-form Jacobian of C18 (`eJacMul`) as a continuous linear map -/
noncomputable def eJacCLM (γ u H : ℝ) : ℝ × ℝ × ℝ →L[ℝ] ℝ × ℝ × ℝ :=
  let d1 : ℝ × ℝ × ℝ →L[ℝ] ℝ := ContinuousLinearMap.fst ℝ ℝ (ℝ × ℝ)
  let d2 : ℝ × ℝ × ℝ →L[ℝ] ℝ := (ContinuousLinearMap.fst ℝ ℝ ℝ).comp (ContinuousLinearMap.snd ℝ ℝ (ℝ × ℝ))
  let d3 : ℝ × ℝ × ℝ →L[ℝ] ℝ := (ContinuousLinearMap.snd ℝ ℝ ℝ).comp (ContinuousLinearMap.snd ℝ ℝ (ℝ × ℝ))
  d2.prod ((((γ - 3) / 2 * u ^ 2) • d1 + ((3 - γ) * u) • d2 + (γ - 1) • d3).prod
    ((((γ - 1) / 2 * u ^ 3 - u * H) • d1 + (H - (γ - 1) * u ^ 2) • d2 + (γ * u) • d3)))

theorem eJacCLM_apply (γ u H : ℝ) (v : ℝ × ℝ × ℝ) : eJacCLM γ u H v = eJacMul γ u H v := by
  simp [eJacCLM, eJacMul]

/-- the closed-form Jacobian is the (Fréchet) derivative of the flux at every state with `ρ ≠ 0`;
`u = m/ρ`, `H` the total enthalpy `eHtot` -/
theorem eFluxC_hasFDerivAt (γ r m E : ℝ) (hγ : γ - 1 ≠ 0) (hr : r ≠ 0) :
    HasFDerivAt (eFluxC γ) (eJacCLM γ (m / r) (eHtot γ r m E)) (r, m, E) := by
  have h1 : HasFDerivAt (fun Q : ℝ × ℝ × ℝ => Q.1) (ContinuousLinearMap.fst ℝ ℝ (ℝ × ℝ)) (r, m, E) :=
    hasFDerivAt_fst
  have h23 : HasFDerivAt (fun Q : ℝ × ℝ × ℝ => Q.2) (ContinuousLinearMap.snd ℝ ℝ (ℝ × ℝ)) (r, m, E) :=
    hasFDerivAt_snd
  have h2 : HasFDerivAt (fun Q : ℝ × ℝ × ℝ => Q.2.1) _ (r, m, E) := h23.fst
  have h3 : HasFDerivAt (fun Q : ℝ × ℝ × ℝ => Q.2.2) _ (r, m, E) := h23.snd
  have hi : HasFDerivAt (fun Q : ℝ × ℝ × ℝ => (Q.1)⁻¹) _ (r, m, E) :=
    (hasDerivAt_inv hr).comp_hasFDerivAt (r, m, E) h1
  have hu := h2.fun_mul hi
  have hk := ((h2.pow 2).const_mul (1 / 2)).fun_mul hi
  have hp := (h3.fun_sub hk).const_mul (γ - 1)
  have hH := (((hp.const_mul γ).fun_mul hi).mul_const (γ - 1)⁻¹).fun_add ((hu.pow 2).const_mul (1 / 2))
  have hF := (h1.fun_mul hu).prodMk (((h1.fun_mul (hu.pow 2)).fun_add hp).prodMk ((h1.fun_mul hu).fun_mul hH))
  have hfun : eFluxC γ = fun Q : ℝ × ℝ × ℝ => (Q.1 * (Q.2.1 * (Q.1)⁻¹),
      Q.1 * (Q.2.1 * (Q.1)⁻¹) ^ 2 + (γ - 1) * (Q.2.2 - 1 / 2 * Q.2.1 ^ 2 * (Q.1)⁻¹),
      Q.1 * (Q.2.1 * (Q.1)⁻¹) * (γ * ((γ - 1) * (Q.2.2 - 1 / 2 * Q.2.1 ^ 2 * (Q.1)⁻¹)) * (Q.1)⁻¹ * (γ - 1)⁻¹
        + 1 / 2 * (Q.2.1 * (Q.1)⁻¹) ^ 2)) := by
    funext Q
    simp only [eFluxC, ePhys, eCons2prim, ePressure, eKinetic]
    refine Prod.ext ?_ (Prod.ext ?_ ?_) <;> simp only <;> ring
  rw [hfun]
  refine hF.congr_fderiv ?_
  refine ContinuousLinearMap.ext fun v => ?_
  rw [eJacCLM_apply]
  refine Prod.ext ?_ (Prod.ext ?_ ?_) <;> simp [eJacMul, eHtot, eKinetic] <;> field_simp <;> ring

/-- partial derivatives of a map of three variables out of its Fréchet derivative -/
theorem partials_of_hasFDerivAt {F : ℝ × ℝ × ℝ → ℝ × ℝ × ℝ} {J : ℝ × ℝ × ℝ →L[ℝ] ℝ × ℝ × ℝ} {r m E : ℝ}
    (h : HasFDerivAt F J (r, m, E)) :
    HasDerivAt (fun t => F (t, m, E)) (J (1, 0, 0)) r
    ∧ HasDerivAt (fun t => F (r, t, E)) (J (0, 1, 0)) m
    ∧ HasDerivAt (fun t => F (r, m, t)) (J (0, 0, 1)) E := by
  have c1 : HasDerivAt (fun t : ℝ => ((t, m, E) : ℝ × ℝ × ℝ)) (1, 0, 0) r :=
    (hasDerivAt_id r).prodMk (hasDerivAt_const r (m, E))
  have c2 : HasDerivAt (fun t : ℝ => ((r, t, E) : ℝ × ℝ × ℝ)) (0, 1, 0) m :=
    (hasDerivAt_const m r).prodMk ((hasDerivAt_id m).prodMk (hasDerivAt_const m E))
  have c3 : HasDerivAt (fun t : ℝ => ((r, m, t) : ℝ × ℝ × ℝ)) (0, 0, 1) E :=
    (hasDerivAt_const E r).prodMk ((hasDerivAt_const E m).prodMk (hasDerivAt_id E))
  exact ⟨h.comp_hasDerivAt_of_eq r c1 rfl, h.comp_hasDerivAt_of_eq m c2 rfl, h.comp_hasDerivAt_of_eq E c3 rfl⟩

theorem hasDerivAt_comp1 {f : ℝ → ℝ × ℝ × ℝ} {f' : ℝ × ℝ × ℝ} {x : ℝ} (h : HasDerivAt f f' x) :
    HasDerivAt (fun t => (f t).1) f'.1 x :=
  (hasFDerivAt_fst (𝕜 := ℝ) (p := f x)).comp_hasDerivAt x h
theorem hasDerivAt_comp2 {f : ℝ → ℝ × ℝ × ℝ} {f' : ℝ × ℝ × ℝ} {x : ℝ} (h : HasDerivAt f f' x) :
    HasDerivAt (fun t => (f t).2.1) f'.2.1 x :=
  ((hasFDerivAt_snd (𝕜 := ℝ) (p := f x)).fst).comp_hasDerivAt x h
theorem hasDerivAt_comp3 {f : ℝ → ℝ × ℝ × ℝ} {f' : ℝ × ℝ × ℝ} {x : ℝ} (h : HasDerivAt f f' x) :
    HasDerivAt (fun t => (f t).2.2) f'.2.2 x :=
  ((hasFDerivAt_snd (𝕜 := ℝ) (p := f x)).snd).comp_hasDerivAt x h

/-- every entry of the closed-form Jacobian `eJacMul` (column `j` = image of the `j`-th unit vector) is the
corresponding partial derivative of the flux -/
theorem eFluxC_partial (γ r m E : ℝ) (hγ : γ - 1 ≠ 0) (hr : r ≠ 0) :
    (let J := eJacMul γ (m / r) (eHtot γ r m E)
     (HasDerivAt (fun t => (eFluxC γ (t, m, E)).1) (J (1, 0, 0)).1 r
      ∧ HasDerivAt (fun t => (eFluxC γ (r, t, E)).1) (J (0, 1, 0)).1 m
      ∧ HasDerivAt (fun t => (eFluxC γ (r, m, t)).1) (J (0, 0, 1)).1 E)
     ∧ (HasDerivAt (fun t => (eFluxC γ (t, m, E)).2.1) (J (1, 0, 0)).2.1 r
      ∧ HasDerivAt (fun t => (eFluxC γ (r, t, E)).2.1) (J (0, 1, 0)).2.1 m
      ∧ HasDerivAt (fun t => (eFluxC γ (r, m, t)).2.1) (J (0, 0, 1)).2.1 E)
     ∧ (HasDerivAt (fun t => (eFluxC γ (t, m, E)).2.2) (J (1, 0, 0)).2.2 r
      ∧ HasDerivAt (fun t => (eFluxC γ (r, t, E)).2.2) (J (0, 1, 0)).2.2 m
      ∧ HasDerivAt (fun t => (eFluxC γ (r, m, t)).2.2) (J (0, 0, 1)).2.2 E)) := by
  intro J
  obtain ⟨p1, p2, p3⟩ := partials_of_hasFDerivAt (eFluxC_hasFDerivAt γ r m E hγ hr)
  rw [eJacCLM_apply] at p1 p2 p3
  exact ⟨⟨hasDerivAt_comp1 p1, hasDerivAt_comp1 p2, hasDerivAt_comp1 p3⟩,
    ⟨hasDerivAt_comp2 p1, hasDerivAt_comp2 p2, hasDerivAt_comp2 p3⟩,
    ⟨hasDerivAt_comp3 p1, hasDerivAt_comp3 p2, hasDerivAt_comp3 p3⟩⟩

/-- non-vacuity: `γ = 7/5`, `Q = (1, 2, 53/14)` (`u = 2`, `H = 9/2`): Jacobian
`[[0, 1, 0], [-16/5, 16/5, 2/5], [-37/5, 29/10, 14/5]]` -/
example :
    (HasDerivAt (fun t => (eFluxC (7/5) (t, 2, 53/14)).1) 0 1
      ∧ HasDerivAt (fun t => (eFluxC (7/5) (1, t, 53/14)).1) 1 2
      ∧ HasDerivAt (fun t => (eFluxC (7/5) (1, 2, t)).1) 0 (53/14))
    ∧ (HasDerivAt (fun t => (eFluxC (7/5) (t, 2, 53/14)).2.1) (-(16/5)) 1
      ∧ HasDerivAt (fun t => (eFluxC (7/5) (1, t, 53/14)).2.1) (16/5) 2
      ∧ HasDerivAt (fun t => (eFluxC (7/5) (1, 2, t)).2.1) (2/5) (53/14))
    ∧ (HasDerivAt (fun t => (eFluxC (7/5) (t, 2, 53/14)).2.2) (-(37/5)) 1
      ∧ HasDerivAt (fun t => (eFluxC (7/5) (1, t, 53/14)).2.2) (29/10) 2
      ∧ HasDerivAt (fun t => (eFluxC (7/5) (1, 2, t)).2.2) (14/5) (53/14)) := by
  have h := eFluxC_partial (7/5) 1 2 (53/14) (by norm_num) (by norm_num)
  have hH : eHtot (7/5 : ℝ) 1 2 (53/14) = 9/2 := by simp only [eHtot, eKinetic]; norm_num
  simp only [hH, eJacMul] at h
  norm_num at h
  exact h

/-- characteristic polynomial of the 3×3 Jacobian, `det (J - l I)` written out (first-row expansion),
entry `(i, j)` = component `i` of `eJacMul` applied to the `j`-th unit vector -/
theorem e_charpoly (γ u c l : ℝ) (hγ : γ - 1 ≠ 0) :
    (let H := c ^ 2 / (γ - 1) + u ^ 2 / 2
     let J := eJacMul γ u H
     let C1 := J (1, 0, 0); let C2 := J (0, 1, 0); let C3 := J (0, 0, 1)
     (C1.1 - l) * ((C2.2.1 - l) * (C3.2.2 - l) - C3.2.1 * C2.2.2)
       - C2.1 * (C1.2.1 * (C3.2.2 - l) - C3.2.1 * C1.2.2)
       + C3.1 * (C1.2.1 * C2.2.2 - (C2.2.1 - l) * C1.2.2)
     = -((l - (u - c)) * (l - u) * (l - (u + c)))) := by
  intro H J C1 C2 C3
  simp only [C1, C2, C3, J, H, eJacMul]
  field_simp
  ring

/-- the eigenvalues of the Jacobian are exactly `u - c`, `u`, `u + c` -/
theorem e_isEig (γ r u p l : ℝ) (hγ : 1 < γ) (hr : 0 < r) (hp : 0 < p) :
    (let c := Real.sqrt (γ * p / r)
     let H := c ^ 2 / (γ - 1) + u ^ 2 / 2
     IsEig (eJacMul γ u H) l ↔ l = u - c ∨ l = u ∨ l = u + c) := by
  intro c H
  have hg0 : γ - 1 ≠ 0 := by linarith
  have hE : eJacMul γ u H (1, u - c, H - u * c) = ((u - c) * 1, (u - c) * (u - c), (u - c) * (H - u * c))
     ∧ eJacMul γ u H (1, u, u ^ 2 / 2) = (u * 1, u * u, u * (u ^ 2 / 2))
     ∧ eJacMul γ u H (1, u + c, H + u * c) = ((u + c) * 1, (u + c) * (u + c), (u + c) * (H + u * c))
     ∧ max |u - c| (max |u| |u + c|) = |u| + c := e_eigen_partial γ r u p hγ hr hp
  obtain ⟨hminus, hzero, hplus, -⟩ := hE
  have hH : (γ - 1) * H = c ^ 2 + (γ - 1) * (u ^ 2 / 2) := by
    show (γ - 1) * (c ^ 2 / (γ - 1) + u ^ 2 / 2) = _
    field_simp
  clear_value H c
  constructor
  · rintro ⟨⟨a, b, e⟩, hv, hJ⟩
    simp only [eJacMul, Prod.smul_mk, smul_eq_mul, Prod.mk.injEq] at hJ
    obtain ⟨e1, e2, e3⟩ := hJ
    subst e1
    have ha : a ≠ 0 := by
      intro ha
      apply hv
      subst ha
      have he : (γ - 1) * e = 0 := by linear_combination e2
      rcases mul_eq_zero.mp he with h0 | h0
      · exact absurd h0 hg0
      · rw [h0]; simp
    have key : a * ((l - u) * ((l - (u - c)) * (l - (u + c)))) = 0 := by
      linear_combination (-(γ - 1)) * e3 + (γ * u - l) * e2 + a * (l - u) * hH
    rcases mul_eq_zero.mp key with h0 | h0
    · exact absurd h0 ha
    · rcases mul_eq_zero.mp h0 with h1 | h1
      · right; left; linarith
      · rcases mul_eq_zero.mp h1 with h2 | h2
        · left; linarith
        · right; right; linarith
  · rintro (rfl | rfl | rfl)
    · refine ⟨(1, u - c, H - u * c), by simp, ?_⟩
      rw [hminus]; simp [Prod.smul_mk]
    · refine ⟨(1, l, l ^ 2 / 2), by simp, ?_⟩
      rw [hzero]; simp [Prod.smul_mk]
    · refine ⟨(1, u + c, H + u * c), by simp, ?_⟩
      rw [hplus]; simp [Prod.smul_mk]

/-- **C18, Euler.**  At every state `(ρ, u, p)`, `ρ, p > 0`, `γ > 1`: the map `eJacCLM γ u H` (= `eJacMul γ u H`
of `e_eigen_partial`) is the derivative at `Q = prim2cons (ρ, u, p)` of the model's flux in conservative
variables; its eigenvalues are exactly `u - c`, `u`, `u + c` with `c = √(γ p/ρ)`; its spectral radius is
`|u| + c`; and the time step of the model is `cfl·dx` over this spectral radius. -/
theorem e_spectral (γ cfl dx r u p : ℝ) (hγ : 1 < γ) (hr : 0 < r) (hp : 0 < p) :
    (let c := Real.sqrt (γ * p / r)
     let H := c ^ 2 / (γ - 1) + u ^ 2 / 2
     let Q := ePrim2cons γ r u p
     let J := eJacCLM γ u H
     HasFDerivAt (eFluxC γ) J Q
     ∧ (∀ v, J v = eJacMul γ u H v)
     ∧ (∀ l, IsEig J l ↔ l = u - c ∨ l = u ∨ l = u + c)
     ∧ IsSpecRadius J (|u| + c)
     ∧ eDt γ cfl dx Q.1 Q.2.1 Q.2.2 = cfl * dx / (|u| + c)) := by
  intro c H Q J
  have hg0 : γ - 1 ≠ 0 := by linarith
  have hJ : (J : ℝ × ℝ × ℝ → ℝ × ℝ × ℝ) = eJacMul γ u H := funext (eJacCLM_apply γ u H)
  have hc0 : 0 ≤ c := Real.sqrt_nonneg _
  have hc2 : c ^ 2 = γ * p / r := Real.sq_sqrt (by positivity)
  have heig : ∀ l, IsEig J l ↔ l = u - c ∨ l = u ∨ l = u + c := by
    intro l; rw [hJ]; exact e_isEig γ r u p l hγ hr hp
  refine ⟨?_, eJacCLM_apply γ u H, heig, ?_, eDt_formula γ cfl dx r u p hγ hr⟩
  · have := eFluxC_hasFDerivAt γ r (r * u) (p / (γ - 1) + 1 / 2 * r * u ^ 2) hg0 hr.ne'
    have hu : r * u / r = u := mul_div_cancel_left₀ u hr.ne'
    have hHt : eHtot γ r (r * u) (p / (γ - 1) + 1 / 2 * r * u ^ 2) = H := by
      show _ = c ^ 2 / (γ - 1) + u ^ 2 / 2
      rw [hc2]
      simp only [eHtot, eKinetic]
      field_simp
      ring
    rwa [hu, hHt] at this
  · exact specRadius_of_pm _ u c hc0 ((heig _).mpr (Or.inl rfl)) ((heig _).mpr (Or.inr (Or.inr rfl)))
      (fun l hl => (heig l).mp hl)

/-- non-vacuity: `γ = 7/5`, `ρ = 1`, `u = 2`, `p = 5/7`: `c = 1`, eigenvalues `1, 2, 3`, `dt = cfl·dx/3`;
conservative state `(1, 2, 53/14)`, total enthalpy `9/2` -/
example (cfl dx : ℝ) : eDt (7/5) cfl dx 1 2 (53/14) = cfl * dx / 3
    ∧ IsSpecRadius (eJacMul (7/5) 2 (9/2)) 3
    ∧ (∀ l, IsEig (eJacMul (7/5) 2 (9/2)) l ↔ l = 1 ∨ l = 2 ∨ l = 3)
    ∧ HasFDerivAt (eFluxC (7/5)) (eJacCLM (7/5) 2 (9/2)) (1, 2, 53/14) := by
  have h := e_spectral (7/5) cfl dx 1 2 (5/7) (by norm_num) one_pos (by norm_num)
  have hs : Real.sqrt (7 / 5 * (5 / 7) / 1) = 1 := by
    rw [show (7 / 5 * (5 / 7) / 1 : ℝ) = 1 by norm_num]; exact Real.sqrt_one
  simp only [hs, ePrim2cons] at h
  norm_num at h
  obtain ⟨h1, -, h3, h4, h5⟩ := h
  have hJ : (eJacCLM (7/5) 2 (9/2) : ℝ × ℝ × ℝ → ℝ × ℝ × ℝ) = eJacMul (7/5) 2 (9/2) :=
    funext (eJacCLM_apply _ _ _)
  rw [hJ] at h3 h4
  exact ⟨h5, h4, h3, h1⟩

/-! ### the same in Mathlib's vocabulary: the spectrum of the derivative -/

/-- the spectrum of the shallow-water flux Jacobian is `{u - c, u + c}` -/
theorem sw_spectrum (g h u : ℝ) (hg : 0 < g) (hh : 0 < h) :
    spectrum ℝ (swJacCLM g h u : Module.End ℝ (ℝ × ℝ)) = {u - Real.sqrt (g * h), u + Real.sqrt (g * h)} := by
  ext l
  rw [← Module.End.hasEigenvalue_iff_mem_spectrum, ← isEig_iff_hasEigenvalue]
  have h3 := (sw_spectral g 1 1 h u hg hh).2.2.1 l
  simpa using h3

/-- the spectrum of the Euler flux Jacobian is `{u - c, u, u + c}` -/
theorem e_spectrum (γ r u p : ℝ) (hγ : 1 < γ) (hr : 0 < r) (hp : 0 < p) :
    (let c := Real.sqrt (γ * p / r)
     let H := c ^ 2 / (γ - 1) + u ^ 2 / 2
     spectrum ℝ (eJacCLM γ u H : Module.End ℝ (ℝ × ℝ × ℝ)) = {u - c, u, u + c}) := by
  intro c H
  ext l
  rw [← Module.End.hasEigenvalue_iff_mem_spectrum, ← isEig_iff_hasEigenvalue]
  have h3 := (e_spectral γ 1 1 r u p hγ hr hp).2.2.1 l
  simpa using h3

end Flowdyn.C18
