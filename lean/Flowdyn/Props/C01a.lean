/-
C01 (1D and integrators) — discrete conservation.

(1) the flux balance telescopes on any mesh for any face-flux array; (2) with periodic ends both end
faces carry the same flux for *arbitrary* `cons2prim`, reconstruction and pointwise flux, so the volume
integral of every equation is invariant; (3) with sources the integral changes by the boundary fluxes
plus the integrated sources; (4) slip walls: the reflection-even flux components vanish at a wall
(mass, energy; depth); (5) every explicit integrator maps a conserved linear functional to itself.
-/
import Flowdyn.Model.FVM1D
import Flowdyn.Model.Models1D
import Flowdyn.Model.Integrators
import Flowdyn.Lemmas.RealInst
import Mathlib.Algebra.BigOperators.Intervals
import Mathlib.Algebra.BigOperators.Group.Finset.Basic
import Mathlib.Algebra.Module.LinearMap.Defs
import Mathlib.Tactic.Ring
import Mathlib.Tactic.Linarith
import Mathlib.Tactic.FieldSimp
import Mathlib.Tactic.Module
import Mathlib.Tactic.Positivity
import Flowdyn.Props.C02a
import Flowdyn.Props.C02b

namespace Flowdyn.C01
open Flowdyn Finset

section pipeline
variable {α : Type} [Field α] {ι : Type}
set_option linter.unusedSectionVars false

/-- (1) telescoping flux balance, any mesh with non-degenerate cells, any flux array -/
theorem balance1d (m : Mesh1D α) (F : ℕ → α) (hvol : ∀ i, i < m.n → m.vol i ≠ 0) :
    ∑ i ∈ range m.n, m.vol i * calcRes m F i = F 0 - F m.n := by
  have h : ∀ i ∈ range m.n, m.vol i * calcRes m F i = -(F (i + 1) - F i) := by
    intro i hi
    have hne := hvol i (mem_range.mp hi)
    unfold calcRes
    field_simp
  rw [sum_congr rfl h, sum_neg_distrib, sum_range_sub]
  ring

/-- total volume telescopes too -/
theorem vol_sum (m : Mesh1D α) : ∑ i ∈ range m.n, m.vol i = m.xf m.n - m.xf 0 := by
  simp only [Mesh1D.vol]
  exact Finset.sum_range_sub m.xf m.n

/-- (2a) periodic ends: both end faces receive the same pair of states, hence the same flux -/
theorem periodic_end_fluxes (D : Disc1D α ι) (hper : D.bc = BC1D.periodic) (hn : D.mesh.n ≠ 0)
    (q : ι → ℕ → α) (k : ι) : D.faceFluxes q k 0 = D.faceFluxes q k D.mesh.n := by
  have hn' : ¬ (0 = D.mesh.n) := fun h => hn h.symm
  simp only [Disc1D.faceFluxes, faceFlux, Disc1D.pL, Disc1D.pR, bcFaceL, bcFaceR, hper,
    if_true, if_neg hn, if_neg hn']

/-- (2b) periodic ends, no sources: the volume integral of every equation is invariant -/
theorem periodic1d (D : Disc1D α ι) (hper : D.bc = BC1D.periodic) (hn : D.mesh.n ≠ 0)
    (hsrc : ∀ k, D.src k = none) (hvol : ∀ i, i < D.mesh.n → D.mesh.vol i ≠ 0) (q : ι → ℕ → α) (k : ι) :
    ∑ i ∈ range D.mesh.n, D.mesh.vol i * D.rhs q k i = 0 := by
  have h : ∀ i, D.rhs q k i = calcRes D.mesh (D.faceFluxes q k) i := by
    intro i
    simp only [Disc1D.rhs, addSource, hsrc k, Disc1D.resNoSrc]
  simp only [h]
  rw [balance1d D.mesh _ hvol, periodic_end_fluxes D hper hn q k, sub_self]

/-- (3) general balance: boundary fluxes plus integrated declared sources, any boundary treatment -/
theorem balance_with_sources (D : Disc1D α ι) (hvol : ∀ i, i < D.mesh.n → D.mesh.vol i ≠ 0)
    (q : ι → ℕ → α) (k : ι) :
    ∑ i ∈ range D.mesh.n, D.mesh.vol i * D.rhs q k i
      = D.faceFluxes q k 0 - D.faceFluxes q k D.mesh.n
        + ∑ i ∈ range D.mesh.n, D.mesh.vol i * (match D.src k with | none => 0 | some s => s D.mesh.xc q i) := by
  have h : ∀ i, D.rhs q k i = calcRes D.mesh (D.faceFluxes q k) i
      + (match D.src k with | none => 0 | some s => s D.mesh.xc q i) := by
    intro i
    simp only [Disc1D.rhs, addSource, Disc1D.resNoSrc]
    cases D.src k <;> simp
  simp only [h, mul_add, sum_add_distrib]
  rw [balance1d D.mesh _ hvol]
end pipeline

/-! ### (4) slip walls: reflection-even flux components vanish between a state and its mirror image -/
section walls
variable {α : Type} [Field α] [LinearOrder α] [IsStrictOrderedRing α]
set_option linter.unusedSectionVars false

/-- generic: a flux obeying the mirror law on an even component has zero even flux at a wall -/
theorem even_flux_zero_of_mirror (Φ : α → α → α) (mir : α → α) (hm : ∀ w, mir (mir w) = w)
    (hlaw : ∀ L R, Φ (mir R) (mir L) = -Φ L R) (w : α) : Φ (mir w) w = 0 ∧ Φ w (mir w) = 0 := by
  have h1 := hlaw (mir w) w
  have h2 := hlaw w (mir w)
  rw [hm] at h1 h2
  constructor <;> linarith

theorem swCentered_wall (g h u : α) : (swCentered g h (-u) h u).1 = 0 ∧ (swCentered g h u h (-u)).1 = 0 := by
  simp only [swCentered]
  constructor <;> ring
theorem eCentered_wall (γ r u p : α) :
    (eCentered γ r (-u) p r u p).1 = 0 ∧ (eCentered γ r (-u) p r u p).2.2 = 0
    ∧ (eCentered γ r u p r (-u) p).1 = 0 ∧ (eCentered γ r u p r (-u) p).2.2 = 0 := by
  simp only [eCentered]
  refine ⟨?_, ?_, ?_, ?_⟩ <;> ring
theorem eCenteredMassflow_wall (γ r u p : α) :
    (eCenteredMassflow γ r (-u) p r u p).1 = 0 ∧ (eCenteredMassflow γ r (-u) p r u p).2.2 = 0
    ∧ (eCenteredMassflow γ r u p r (-u) p).1 = 0 ∧ (eCenteredMassflow γ r u p r (-u) p).2.2 = 0 := by
  simp only [eCenteredMassflow]
  refine ⟨?_, ?_, ?_, ?_⟩ <;> ring
end walls

theorem swRusanov_wall (g h u : ℝ) : (swRusanov g h (-u) h u).1 = 0 ∧ (swRusanov g h u h (-u)).1 = 0 := by
  simp only [swRusanov, swRusanovG]
  constructor <;> ring
theorem swHll_wall (g h u : ℝ) (hg : 0 < g) (hh : 0 < h) :
    (swHll g h (-u) h u).1 = 0 ∧ (swHll g h u h (-u)).1 = 0 := by
  have h1 := congrArg Prod.fst (C02.swHll_mirror g h (-u) h u)
  have h2 := congrArg Prod.fst (C02.swHll_mirror g h u h (-u))
  simp only [neg_neg] at h1 h2
  constructor <;> linarith
theorem eHlle_wall (γ r u p : ℝ) (hγ : 1 < γ) (hr : 0 < r) (hp : 0 < p) :
    (eHlle γ r (-u) p r u p).1 = 0 ∧ (eHlle γ r (-u) p r u p).2.2 = 0
    ∧ (eHlle γ r u p r (-u) p).1 = 0 ∧ (eHlle γ r u p r (-u) p).2.2 = 0 := by
  have h1 := C02.eHlle_mirror γ r (-u) p r u p hr hr
  have h2 := C02.eHlle_mirror γ r u p r (-u) p hr hr
  simp only [neg_neg] at h1 h2
  have h1a := congrArg Prod.fst h1
  have h1b := congrArg (fun t => t.2.2) h1
  have h2a := congrArg Prod.fst h2
  have h2b := congrArg (fun t => t.2.2) h2
  simp only at h1a h1b h2a h2b
  refine ⟨?_, ?_, ?_, ?_⟩ <;> linarith
/-- Roe average of a state and its mirror image: zero velocity -/
theorem eRoe_wall (γ r v H : ℝ) (hr : 0 < r) :
    eRoe γ r v H r (-v) H = (0, Real.sqrt (H * (γ - 1))) := by
  simp only [eRoe, HasSqrt.sqrt_real]
  rw [div_self hr.ne', Real.sqrt_one]
  refine Prod.ext ?_ ?_ <;> simp only
  · ring
  · congr 1; ring

/-- the HLLC core between a state and its mirror image with symmetric wave speeds `∓s`, `s > 0` -/
theorem hllcCore_wall (r v p H e s : ℝ) (hs : 0 < s) :
    (C02.hllcCore r v p H e r (-v) p H e (-s) s).1 = 0
    ∧ (C02.hllcCore r v p H e r (-v) p H e (-s) s).2.2 = 0 := by
  have hsM : (p - p - r * v * (-s - v) + r * -v * (s - -v)) / (r * (s - -v) - r * (-s - v)) = 0 := by
    rw [div_eq_zero_iff]; left; ring
  have hns : ¬ (0 ≤ -s) := by linarith
  simp only [C02.hllcCore, hsM, le_refl, if_true, if_neg hns]
  constructor <;> ring

theorem eHllc_wall_aux (γ r v p : ℝ) (hγ : 1 < γ) (hr : 0 < r) (hp : 0 < p) :
    (eHllc γ r v p r (-v) p).1 = 0 ∧ (eHllc γ r v p r (-v) p).2.2 = 0 := by
  have hg : 0 < γ - 1 := by linarith
  have hγ0 : 0 < γ := by linarith
  rw [C02.eHllc_eq_core]
  simp only [neg_sq]
  rw [eRoe_wall γ r v _ hr]
  simp only
  set H := γ * p / r / (γ - 1) + 1 / 2 * v ^ 2 with hH
  have hHpos : 0 < H * (γ - 1) := by
    apply mul_pos _ hg
    have : 0 < γ * p / r / (γ - 1) := div_pos (div_pos (mul_pos hγ0 hp) hr) hg
    have : 0 ≤ 1 / 2 * v ^ 2 := by positivity
    linarith
  set cr := Real.sqrt (H * (γ - 1)) with hcr
  have hcrpos : 0 < cr := Real.sqrt_pos.mpr hHpos
  set c := Real.sqrt (γ * p / r)
  have hsL : min (0 - cr) (v - c) = -(max (0 + cr) (-v + c)) := by
    rw [show (0 : ℝ) - cr = -(0 + cr) by ring, show v - c = -(-v + c) by ring, min_neg_neg]
  rw [hsL]
  have hs : 0 < max (0 + cr) (-v + c) := lt_of_lt_of_le (by linarith) (le_max_left _ _)
  exact hllcCore_wall r v p H _ _ hs

/-- HLLC at a wall: the contact speed is exactly zero and mass / energy fluxes vanish -/
theorem eHllc_wall (γ r u p : ℝ) (hγ : 1 < γ) (hr : 0 < r) (hp : 0 < p) :
    (eHllc γ r (-u) p r u p).1 = 0 ∧ (eHllc γ r (-u) p r u p).2.2 = 0
    ∧ (eHllc γ r u p r (-u) p).1 = 0 ∧ (eHllc γ r u p r (-u) p).2.2 = 0 := by
  have h1 := eHllc_wall_aux γ r (-u) p hγ hr hp
  have h2 := eHllc_wall_aux γ r u p hγ hr hp
  rw [neg_neg] at h1
  exact ⟨h1.1, h1.2, h2.1, h2.2⟩

/-- every Euler flux has zero mass and energy components between a state and its `sym` image -/
theorem eulerFluxV_wall (γ : ℝ) (hγ : 1 < γ) (fl : EulerFlux) (w : ℕ → ℝ) (h0 : 0 < w 0) (h2 : 0 < w 2) :
    eulerFluxV γ fl (vec3 (eBcSym (w 0) (w 1) (w 2))) (fun j => w j) 0 = 0
    ∧ eulerFluxV γ fl (vec3 (eBcSym (w 0) (w 1) (w 2))) (fun j => w j) 2 = 0
    ∧ eulerFluxV γ fl (fun j => w j) (vec3 (eBcSym (w 0) (w 1) (w 2))) 0 = 0
    ∧ eulerFluxV γ fl (fun j => w j) (vec3 (eBcSym (w 0) (w 1) (w 2))) 2 = 0 := by
  cases fl <;> simp only [eulerFluxV, vec3, eBcSym]
  · exact eCentered_wall γ (w 0) (w 1) (w 2)
  · exact eCenteredMassflow_wall γ (w 0) (w 1) (w 2)
  · exact eHlle_wall γ (w 0) (w 1) (w 2) hγ h0 h2
  · exact eHllc_wall γ (w 0) (w 1) (w 2) hγ h0 h2

/-- wall-bounded Euler discretisation: the mass integral is invariant (same for energy, k = 2) -/
theorem euler_sym_walls_conserve (γ : ℝ) (hγ : 1 < γ) (fl : EulerFlux) (m : Mesh1D ℝ) (s : Scheme ℝ)
    (hn : m.n ≠ 0) (hvol : ∀ i, i < m.n → m.vol i ≠ 0) (q : ℕ → ℕ → ℝ)
    (D : Disc1D ℝ ℕ) (hD : D = { mesh := m, scheme := s, bc := BC1D.open (eulerBC γ (-1) .sym) (eulerBC γ 1 .sym),
                                   c2p := eulerC2P γ, flux := eulerFluxV γ fl, src := fun _ => none })
    (hadmL : 0 < D.pR0 q 0 0 ∧ 0 < D.pR0 q 2 0) (hadmR : 0 < D.pL0 q 0 m.n ∧ 0 < D.pL0 q 2 m.n) :
    ∑ i ∈ range m.n, m.vol i * D.rhs q 0 i = 0 ∧ ∑ i ∈ range m.n, m.vol i * D.rhs q 2 i = 0 := by
  subst hD
  set D : Disc1D ℝ ℕ := { mesh := m, scheme := s, bc := BC1D.open (eulerBC γ (-1) .sym) (eulerBC γ 1 .sym),
                          c2p := eulerC2P γ, flux := eulerFluxV γ fl, src := fun _ => none } with hD
  have hn' : ¬ (0 = m.n) := fun h => hn h.symm
  have hrhs : ∀ k i, D.rhs q k i = calcRes m (D.faceFluxes q k) i := fun k i => rfl
  have hL := eulerFluxV_wall γ hγ fl (fun j => D.pR0 q j 0) hadmL.1 hadmL.2
  have hR := eulerFluxV_wall γ hγ fl (fun j => D.pL0 q j m.n) hadmR.1 hadmR.2
  have hF0 : ∀ k, D.faceFluxes q k 0
      = eulerFluxV γ fl (vec3 (eBcSym (D.pR0 q 0 0) (D.pR0 q 1 0) (D.pR0 q 2 0))) (fun j => D.pR0 q j 0) k := by
    intro k
    simp only [Disc1D.faceFluxes, faceFlux, Disc1D.pL, Disc1D.pR, bcFaceL, bcFaceR, hD, eulerBC,
      if_true, if_neg hn']
  have hFn : ∀ k, D.faceFluxes q k m.n
      = eulerFluxV γ fl (fun j => D.pL0 q j m.n) (vec3 (eBcSym (D.pL0 q 0 m.n) (D.pL0 q 1 m.n) (D.pL0 q 2 m.n))) k := by
    intro k
    simp only [Disc1D.faceFluxes, faceFlux, Disc1D.pL, Disc1D.pR, bcFaceL, bcFaceR, hD, eulerBC,
      if_true, if_neg hn]
  simp only [hrhs]
  rw [balance1d m _ hvol, balance1d m _ hvol, hF0, hF0, hFn, hFn, hL.1, hL.2.1, hR.2.2.1, hR.2.2.2]
  simp

/-! ### (5) integrators: a linear functional annihilated by the space operator is conserved by a step -/
section integrators
variable {α : Type} [Field α] {V : Type} [AddCommGroup V] [Module α V]

theorem list_sum_killed (w : V →ₗ[α] α) (l : List V) (h : ∀ x ∈ l, w x = 0) : w l.sum = 0 := by
  induction l with
  | nil => simp
  | cons a l ih =>
    rw [List.sum_cons, map_add, h a (List.mem_cons_self ..), ih (fun x hx => h x (List.mem_cons_of_mem _ hx)),
      add_zero]

theorem rkAggregate_killed (w : V →ₗ[α] α) (row : List α) (prhs : List V) (r : V) (hr : w r = 0)
    (hp : ∀ x ∈ prhs, w x = 0) : w (rkAggregate row prhs r) = 0 := by
  unfold rkAggregate
  rw [map_add, map_smul, hr, smul_zero, zero_add]
  apply list_sum_killed
  intro x hx
  obtain ⟨ck, hck, rfl⟩ := List.mem_map.mp hx
  rw [map_smul, hp ck.2 (List.of_mem_zip hck).2, smul_zero]

theorem rk_fold_conserves (w : V →ₗ[α] α) (R : α → V → V) (hR : ∀ t q, w (R t q) = 0) (dt t0 : α) (q0 : V)
    (tbl : List (List α)) (st : RkState α V) (h1 : w st.data = w q0) (h2 : ∀ r ∈ st.prhs, w r = 0) :
    w (tbl.foldl (rkStage R dt (fun v => dt • v) t0 q0) st).data = w q0 := by
  induction tbl generalizing st with
  | nil => exact h1
  | cons row tbl ih =>
    rw [List.foldl_cons]
    apply ih
    · simp only [rkStage]
      rw [map_add, map_smul, rkAggregate_killed w row st.prhs _ (hR _ _) h2, smul_zero, add_zero]
    · intro r hr
      simp only [rkStage] at hr
      rcases List.mem_append.mp hr with h | h
      · exact h2 r h
      · rw [List.mem_singleton.mp h]; exact hR _ _

theorem ls_fold_conserves (w : V →ₗ[α] α) (R : α → V → V) (hR : ∀ t q, w (R t q) = 0) (tc : α → α)
    (dt t0 : α) (q0 : V) (bs : List α) (st : StepOut α V) (h1 : w st.data = w q0) :
    w (bs.foldl (lsStage tc R dt (fun v => dt • v) t0 q0) st).data = w q0 := by
  induction bs generalizing st with
  | nil => exact h1
  | cons b bs ih =>
    rw [List.foldl_cons]
    apply ih
    simp only [lsStage]
    rw [map_add, map_smul, map_smul, hR, smul_zero, smul_zero, add_zero]

theorem explicit_conserves (w : V →ₗ[α] α) (R : α → V → V) (hR : ∀ t q, w (R t q) = 0) (dt t : α) (q : V) :
    w (explicitStep R dt t q).data = w q := by
  simp only [explicitStep, explicitStepG]
  rw [map_add, map_smul, hR, smul_zero, add_zero]
theorem rk2_conserves (w : V →ₗ[α] α) (R : α → V → V) (hR : ∀ t q, w (R t q) = 0) (dt t : α) (q : V) :
    w (rk2Step R dt t q).data = w q := by
  simp only [rk2Step, rk2StepG]
  rw [map_add, map_smul, hR, smul_zero, add_zero]
/-- generic Butcher loop, **any** table -/
theorem rk_conserves (tbl : List (List α)) (w : V →ₗ[α] α) (R : α → V → V) (hR : ∀ t q, w (R t q) = 0)
    (dt t : α) (q : V) : w (rkStep tbl R dt t q).data = w q := by
  simp only [rkStep, rkStepG]
  exact rk_fold_conserves w R hR dt t q tbl _ rfl (by intro r hr; simp at hr)
/-- low-storage loop, **any** coefficient list -/
theorem ls_conserves (bs : List α) (w : V →ₗ[α] α) (R : α → V → V) (hR : ∀ t q, w (R t q) = 0)
    (dt t : α) (q : V) : w (lsStep bs R dt t q).data = w q := by
  simp only [lsStep, lsStepG]
  exact ls_fold_conserves w R hR _ dt t q bs _ rfl
end integrators

end Flowdyn.C01
