/-
C18 (part C) — 2D Euler: the wave speed `|V| + c` in the time step `e2Dt` is the largest, over all unit
directions `n`, of the spectral radius of the derivative of the model's flux through a face of normal `n`.

  * `e2FluxC γ nx ny`: the model's 2D flux through a face of normal `(nx, ny)` as a function of the
    *conservative* state `(ρ, mx, my, E)` (`e2Cons2prim` followed by the physical flux `e2Phys`), equal to the
    numerical fluxes of the model on two equal states (`e2FluxC_eq_centered`, `e2FluxC_eq_hlle`, through the
    consistency theorems of C02), for any normal, unit or not;
  * `e2JacMul γ nx ny u v H`: closed-form 4×4 Jacobian applied to a vector; `e2JacCLM` the same as a continuous
    linear map; `e2FluxC_hasFDerivAt`: it is the Fréchet derivative of `e2FluxC` at every state with `ρ ≠ 0`
    (`γ ≠ 1`), for every normal (unit or not); `e2FluxC_partial`: entry by entry, the 16 partial derivatives;
  * `e2_eigen`: eigenvectors for `un - c`, `un` (two: entropy and shear), `un + c`, unit normal;
    `e2_eig_only`: conversely every real eigenvalue is one of the three (direct argument in characteristic
    variables); `e2_isEig`: the iff; `e2_specRadius`: spectral radius `|un| + c` in direction `n`;
  * `e2JacMat`, `e2_charpoly`, `e2_charpoly_eval`, `e2_charpoly_roots`, `e2_isEig_iff_root`: the same through
    `Matrix.det` / `Matrix.charpoly`: `det (l I - J) = (l - un)² ((l - un)² - c² |n|²)`;
  * `abs_un_le`, `un_attained`, `dir_max`: `max over unit n of |u nx + v ny| + c = sqrt (u² + v²) + c`
    (as `IsGreatest`), attained at `n = V/|V|`;
  * `e2_spectral`: everything in one statement, with the model's time step `e2Dt = cfl·dx / (that maximum)`;
  * `e2_spectrum`: the eigenvalue set as Mathlib's `spectrum`.
The eigenvalue theorems need only `γ > 1` and `c ≥ 0` with `(γ-1) H = c² + (γ-1)(u²+v²)/2`; `ρ, p > 0` enter in
`e2_spectral`, where `c² = γ p/ρ` makes `H` the total enthalpy of the state (derivative) and `e2Dt` well formed.
-/
import Flowdyn.Props.C18b
import Mathlib.LinearAlgebra.Matrix.Determinant.Basic
import Mathlib.LinearAlgebra.Matrix.Charpoly.Basic
import Mathlib.LinearAlgebra.Matrix.Notation

namespace Flowdyn.C18c
open Flowdyn Flowdyn.C18

/-! ### the flux as a function of the conservative state -/

/-- the model's flux through a face of normal `(nx, ny)` as a function of the conservative state
`(ρ, mx, my, E)`: `cons2prim` then the physical flux -/
noncomputable def e2FluxC (γ nx ny : ℝ) (Q : T4 ℝ) : T4 ℝ :=
  e2Phys γ nx ny (e2Cons2prim γ Q.1 Q.2.1 Q.2.2.1 Q.2.2.2).1 (e2Cons2prim γ Q.1 Q.2.1 Q.2.2.1 Q.2.2.2).2.1
    (e2Cons2prim γ Q.1 Q.2.1 Q.2.2.1 Q.2.2.2).2.2.1 (e2Cons2prim γ Q.1 Q.2.1 Q.2.2.1 Q.2.2.2).2.2.2

theorem e2FluxC_eq_centered (γ nx ny : ℝ) (Q : T4 ℝ) :
    e2FluxC γ nx ny Q = (let W := e2Cons2prim γ Q.1 Q.2.1 Q.2.2.1 Q.2.2.2
      e2Centered γ nx ny W.1 W.2.1 W.2.2.1 W.2.2.2 W.1 W.2.1 W.2.2.1 W.2.2.2) := by
  simp only [e2FluxC, C02.e2Centered_consistent]

theorem e2FluxC_eq_hlle (γ nx ny : ℝ) (Q : T4 ℝ) (hγ : 1 < γ) (hr : 0 < Q.1)
    (hp : 0 < e2Pressure γ Q.1 Q.2.1 Q.2.2.1 Q.2.2.2) :
    e2FluxC γ nx ny Q = (let W := e2Cons2prim γ Q.1 Q.2.1 Q.2.2.1 Q.2.2.2
      e2Hlle γ nx ny W.1 W.2.1 W.2.2.1 W.2.2.2 W.1 W.2.1 W.2.2.1 W.2.2.2) := by
  simp only [e2FluxC]
  rw [C02.e2Hlle_consistent γ nx ny _ _ _ _ hγ (by simpa [e2Cons2prim] using hr)
    (by simpa [e2Cons2prim] using hp)]

/-- `cons2prim` inverts `prim2cons` -/
theorem e2Cons2prim_prim2cons (γ r u v p : ℝ) (hγ : γ - 1 ≠ 0) (hr : r ≠ 0) :
    (let Q := e2Prim2cons γ r u v p; e2Cons2prim γ Q.1 Q.2.1 Q.2.2.1 Q.2.2.2) = (r, u, v, p) := by
  simp only [e2Prim2cons, e2Cons2prim, e2Pressure, e2Kinetic]
  refine Prod.ext rfl (Prod.ext ?_ (Prod.ext ?_ ?_)) <;> simp only
  · rw [mul_div_cancel_left₀ u hr]
  · rw [mul_div_cancel_left₀ v hr]
  · field_simp; ring

theorem e2FluxC_prim (γ nx ny r u v p : ℝ) (hγ : γ - 1 ≠ 0) (hr : r ≠ 0) :
    e2FluxC γ nx ny (e2Prim2cons γ r u v p) = e2Phys γ nx ny r u v p := by
  have h := e2Cons2prim_prim2cons γ r u v p hγ hr
  simp only at h
  simp only [e2FluxC, h]

/-! ### the closed-form Jacobian and the derivative of the flux -/

/-- Jacobian of the 2D Euler flux through a face of normal `(nx, ny)` w.r.t. conservative `(ρ, mx, my, E)` at
velocity `(u, v)` and total enthalpy `H`, applied to a vector (rows: mass, x-momentum, y-momentum, energy) -/
noncomputable def e2JacMul (γ nx ny u v H : ℝ) (w : T4 ℝ) : T4 ℝ :=
  (nx * w.2.1 + ny * w.2.2.1,
   ((γ - 1) / 2 * (u ^ 2 + v ^ 2) * nx - u * (u * nx + v * ny)) * w.1
     + ((u * nx + v * ny) - (γ - 2) * u * nx) * w.2.1
     + (u * ny - (γ - 1) * v * nx) * w.2.2.1 + (γ - 1) * nx * w.2.2.2,
   ((γ - 1) / 2 * (u ^ 2 + v ^ 2) * ny - v * (u * nx + v * ny)) * w.1
     + (v * nx - (γ - 1) * u * ny) * w.2.1
     + ((u * nx + v * ny) - (γ - 2) * v * ny) * w.2.2.1 + (γ - 1) * ny * w.2.2.2,
   ((γ - 1) / 2 * (u ^ 2 + v ^ 2) - H) * (u * nx + v * ny) * w.1
     + (H * nx - (γ - 1) * u * (u * nx + v * ny)) * w.2.1
     + (H * ny - (γ - 1) * v * (u * nx + v * ny)) * w.2.2.1 + γ * (u * nx + v * ny) * w.2.2.2)

/-- for an x-face and no transverse velocity the 2D Jacobian restricted to `(ρ, mx, E)` is the 1D one -/
theorem e2JacMul_reduces_1d (γ u H a b e : ℝ) :
    (let J2 := e2JacMul γ 1 0 u 0 H (a, b, 0, e)
     (J2.1, J2.2.1, J2.2.2.2) = eJacMul γ u H (a, b, e) ∧ J2.2.2.1 = 0) := by
  simp only [e2JacMul, eJacMul]
  refine ⟨Prod.ext ?_ (Prod.ext ?_ ?_), ?_⟩ <;> ring

/-- the closed-form Jacobian `e2JacMul` as a continuous linear map -/
noncomputable def e2JacCLM (γ nx ny u v H : ℝ) : T4 ℝ →L[ℝ] T4 ℝ :=
  let s1 : T4 ℝ →L[ℝ] ℝ × ℝ × ℝ := ContinuousLinearMap.snd ℝ ℝ (ℝ × ℝ × ℝ)
  let s2 : T4 ℝ →L[ℝ] ℝ × ℝ := (ContinuousLinearMap.snd ℝ ℝ (ℝ × ℝ)).comp s1
  let d1 : T4 ℝ →L[ℝ] ℝ := ContinuousLinearMap.fst ℝ ℝ (ℝ × ℝ × ℝ)
  let d2 : T4 ℝ →L[ℝ] ℝ := (ContinuousLinearMap.fst ℝ ℝ (ℝ × ℝ)).comp s1
  let d3 : T4 ℝ →L[ℝ] ℝ := (ContinuousLinearMap.fst ℝ ℝ ℝ).comp s2
  let d4 : T4 ℝ →L[ℝ] ℝ := (ContinuousLinearMap.snd ℝ ℝ ℝ).comp s2
  (nx • d2 + ny • d3).prod
   (((((γ - 1) / 2 * (u ^ 2 + v ^ 2) * nx - u * (u * nx + v * ny)) • d1
     + ((u * nx + v * ny) - (γ - 2) * u * nx) • d2
     + (u * ny - (γ - 1) * v * nx) • d3 + ((γ - 1) * nx) • d4)).prod
   (((((γ - 1) / 2 * (u ^ 2 + v ^ 2) * ny - v * (u * nx + v * ny)) • d1
     + (v * nx - (γ - 1) * u * ny) • d2
     + ((u * nx + v * ny) - (γ - 2) * v * ny) • d3 + ((γ - 1) * ny) • d4)).prod
   ((((γ - 1) / 2 * (u ^ 2 + v ^ 2) - H) * (u * nx + v * ny)) • d1
     + (H * nx - (γ - 1) * u * (u * nx + v * ny)) • d2
     + (H * ny - (γ - 1) * v * (u * nx + v * ny)) • d3 + (γ * (u * nx + v * ny)) • d4)))

theorem e2JacCLM_apply (γ nx ny u v H : ℝ) (w : T4 ℝ) :
    e2JacCLM γ nx ny u v H w = e2JacMul γ nx ny u v H w := by
  simp [e2JacCLM, e2JacMul]

/-- the closed-form Jacobian is the (Fréchet) derivative of the flux through a face of normal `(nx, ny)` (any
normal, unit or not) at every state with `ρ ≠ 0`; `u = mx/ρ`, `v = my/ρ`, `H` the total enthalpy `e2Htot` -/
theorem e2FluxC_hasFDerivAt (γ nx ny r mx my E : ℝ) (hγ : γ - 1 ≠ 0) (hr : r ≠ 0) :
    HasFDerivAt (e2FluxC γ nx ny) (e2JacCLM γ nx ny (mx / r) (my / r) (e2Htot γ r mx my E)) (r, mx, my, E) := by
  have h1 : HasFDerivAt (fun Q : T4 ℝ => Q.1) (ContinuousLinearMap.fst ℝ ℝ (ℝ × ℝ × ℝ)) (r, mx, my, E) :=
    hasFDerivAt_fst
  have h234 : HasFDerivAt (fun Q : T4 ℝ => Q.2) (ContinuousLinearMap.snd ℝ ℝ (ℝ × ℝ × ℝ)) (r, mx, my, E) :=
    hasFDerivAt_snd
  have h2 : HasFDerivAt (fun Q : T4 ℝ => Q.2.1) _ (r, mx, my, E) := h234.fst
  have h34 : HasFDerivAt (fun Q : T4 ℝ => Q.2.2) _ (r, mx, my, E) := h234.snd
  have h3 : HasFDerivAt (fun Q : T4 ℝ => Q.2.2.1) _ (r, mx, my, E) := h34.fst
  have h4 : HasFDerivAt (fun Q : T4 ℝ => Q.2.2.2) _ (r, mx, my, E) := h34.snd
  have hi : HasFDerivAt (fun Q : T4 ℝ => (Q.1)⁻¹) _ (r, mx, my, E) :=
    (hasDerivAt_inv hr).comp_hasFDerivAt (r, mx, my, E) h1
  have hu := h2.fun_mul hi
  have hv := h3.fun_mul hi
  have hun := (hu.mul_const nx).fun_add (hv.mul_const ny)
  have hk := (((h2.pow 2).fun_add (h3.pow 2)).const_mul (1 / 2)).fun_mul hi
  have hp := (h4.fun_sub hk).const_mul (γ - 1)
  have hH := (((hp.const_mul γ).fun_mul hi).mul_const (γ - 1)⁻¹).fun_add
    (((hu.pow 2).fun_add (hv.pow 2)).const_mul (1 / 2))
  have hm := h1.fun_mul hun
  have hF := hm.prodMk (((hm.fun_mul hu).fun_add (hp.mul_const nx)).prodMk
    (((hm.fun_mul hv).fun_add (hp.mul_const ny)).prodMk (hm.fun_mul hH)))
  have hfun : e2FluxC γ nx ny = fun Q : T4 ℝ =>
      (Q.1 * (Q.2.1 * (Q.1)⁻¹ * nx + Q.2.2.1 * (Q.1)⁻¹ * ny),
       Q.1 * (Q.2.1 * (Q.1)⁻¹ * nx + Q.2.2.1 * (Q.1)⁻¹ * ny) * (Q.2.1 * (Q.1)⁻¹)
         + (γ - 1) * (Q.2.2.2 - 1 / 2 * (Q.2.1 ^ 2 + Q.2.2.1 ^ 2) * (Q.1)⁻¹) * nx,
       Q.1 * (Q.2.1 * (Q.1)⁻¹ * nx + Q.2.2.1 * (Q.1)⁻¹ * ny) * (Q.2.2.1 * (Q.1)⁻¹)
         + (γ - 1) * (Q.2.2.2 - 1 / 2 * (Q.2.1 ^ 2 + Q.2.2.1 ^ 2) * (Q.1)⁻¹) * ny,
       Q.1 * (Q.2.1 * (Q.1)⁻¹ * nx + Q.2.2.1 * (Q.1)⁻¹ * ny)
         * (γ * ((γ - 1) * (Q.2.2.2 - 1 / 2 * (Q.2.1 ^ 2 + Q.2.2.1 ^ 2) * (Q.1)⁻¹)) * (Q.1)⁻¹ * (γ - 1)⁻¹
            + 1 / 2 * ((Q.2.1 * (Q.1)⁻¹) ^ 2 + (Q.2.2.1 * (Q.1)⁻¹) ^ 2))) := by
    funext Q
    simp only [e2FluxC, e2Phys, e2Cons2prim, e2Pressure, e2Kinetic]
    refine Prod.ext ?_ (Prod.ext ?_ (Prod.ext ?_ ?_)) <;> simp only <;> ring
  rw [hfun]
  refine hF.congr_fderiv ?_
  refine ContinuousLinearMap.ext fun w => ?_
  rw [e2JacCLM_apply]
  refine Prod.ext ?_ (Prod.ext ?_ (Prod.ext ?_ ?_)) <;> simp [e2JacMul, e2Htot, e2Kinetic] <;> field_simp <;> ring

/-- partial derivatives of a map of four variables out of its Fréchet derivative -/
theorem partials4_of_hasFDerivAt {F : T4 ℝ → T4 ℝ} {J : T4 ℝ →L[ℝ] T4 ℝ} {r mx my E : ℝ}
    (h : HasFDerivAt F J (r, mx, my, E)) :
    HasDerivAt (fun t => F (t, mx, my, E)) (J (1, 0, 0, 0)) r
    ∧ HasDerivAt (fun t => F (r, t, my, E)) (J (0, 1, 0, 0)) mx
    ∧ HasDerivAt (fun t => F (r, mx, t, E)) (J (0, 0, 1, 0)) my
    ∧ HasDerivAt (fun t => F (r, mx, my, t)) (J (0, 0, 0, 1)) E := by
  have c1 : HasDerivAt (fun t : ℝ => ((t, mx, my, E) : T4 ℝ)) (1, 0, 0, 0) r :=
    (hasDerivAt_id r).prodMk (hasDerivAt_const r (mx, my, E))
  have c2 : HasDerivAt (fun t : ℝ => ((r, t, my, E) : T4 ℝ)) (0, 1, 0, 0) mx :=
    (hasDerivAt_const mx r).prodMk ((hasDerivAt_id mx).prodMk (hasDerivAt_const mx (my, E)))
  have c3 : HasDerivAt (fun t : ℝ => ((r, mx, t, E) : T4 ℝ)) (0, 0, 1, 0) my :=
    (hasDerivAt_const my r).prodMk ((hasDerivAt_const my mx).prodMk
      ((hasDerivAt_id my).prodMk (hasDerivAt_const my E)))
  have c4 : HasDerivAt (fun t : ℝ => ((r, mx, my, t) : T4 ℝ)) (0, 0, 0, 1) E :=
    (hasDerivAt_const E r).prodMk ((hasDerivAt_const E mx).prodMk
      ((hasDerivAt_const E my).prodMk (hasDerivAt_id E)))
  exact ⟨h.comp_hasDerivAt_of_eq r c1 rfl, h.comp_hasDerivAt_of_eq mx c2 rfl,
    h.comp_hasDerivAt_of_eq my c3 rfl, h.comp_hasDerivAt_of_eq E c4 rfl⟩

/-- the four components of a curve in `T4 ℝ` -/
theorem hasDerivAt_comps4 {f : ℝ → T4 ℝ} {f' : T4 ℝ} {x : ℝ} (h : HasDerivAt f f' x) :
    HasDerivAt (fun t => (f t).1) f'.1 x ∧ HasDerivAt (fun t => (f t).2.1) f'.2.1 x
    ∧ HasDerivAt (fun t => (f t).2.2.1) f'.2.2.1 x ∧ HasDerivAt (fun t => (f t).2.2.2) f'.2.2.2 x :=
  ⟨(hasFDerivAt_fst (𝕜 := ℝ) (p := f x)).comp_hasDerivAt x h,
   ((hasFDerivAt_snd (𝕜 := ℝ) (p := f x)).fst).comp_hasDerivAt x h,
   (((hasFDerivAt_snd (𝕜 := ℝ) (p := f x)).snd).fst).comp_hasDerivAt x h,
   (((hasFDerivAt_snd (𝕜 := ℝ) (p := f x)).snd).snd).comp_hasDerivAt x h⟩

/-- every entry of the closed-form Jacobian `e2JacMul` (column `j` = image of the `j`-th unit vector, listed
column by column: derivative of the four flux components along `ρ`, then `mx`, `my`, `E`) is the corresponding
partial derivative of the flux -/
theorem e2FluxC_partial (γ nx ny r mx my E : ℝ) (hγ : γ - 1 ≠ 0) (hr : r ≠ 0) :
    (let J := e2JacMul γ nx ny (mx / r) (my / r) (e2Htot γ r mx my E)
     (HasDerivAt (fun t => (e2FluxC γ nx ny (t, mx, my, E)).1) (J (1, 0, 0, 0)).1 r
      ∧ HasDerivAt (fun t => (e2FluxC γ nx ny (t, mx, my, E)).2.1) (J (1, 0, 0, 0)).2.1 r
      ∧ HasDerivAt (fun t => (e2FluxC γ nx ny (t, mx, my, E)).2.2.1) (J (1, 0, 0, 0)).2.2.1 r
      ∧ HasDerivAt (fun t => (e2FluxC γ nx ny (t, mx, my, E)).2.2.2) (J (1, 0, 0, 0)).2.2.2 r)
     ∧ (HasDerivAt (fun t => (e2FluxC γ nx ny (r, t, my, E)).1) (J (0, 1, 0, 0)).1 mx
      ∧ HasDerivAt (fun t => (e2FluxC γ nx ny (r, t, my, E)).2.1) (J (0, 1, 0, 0)).2.1 mx
      ∧ HasDerivAt (fun t => (e2FluxC γ nx ny (r, t, my, E)).2.2.1) (J (0, 1, 0, 0)).2.2.1 mx
      ∧ HasDerivAt (fun t => (e2FluxC γ nx ny (r, t, my, E)).2.2.2) (J (0, 1, 0, 0)).2.2.2 mx)
     ∧ (HasDerivAt (fun t => (e2FluxC γ nx ny (r, mx, t, E)).1) (J (0, 0, 1, 0)).1 my
      ∧ HasDerivAt (fun t => (e2FluxC γ nx ny (r, mx, t, E)).2.1) (J (0, 0, 1, 0)).2.1 my
      ∧ HasDerivAt (fun t => (e2FluxC γ nx ny (r, mx, t, E)).2.2.1) (J (0, 0, 1, 0)).2.2.1 my
      ∧ HasDerivAt (fun t => (e2FluxC γ nx ny (r, mx, t, E)).2.2.2) (J (0, 0, 1, 0)).2.2.2 my)
     ∧ (HasDerivAt (fun t => (e2FluxC γ nx ny (r, mx, my, t)).1) (J (0, 0, 0, 1)).1 E
      ∧ HasDerivAt (fun t => (e2FluxC γ nx ny (r, mx, my, t)).2.1) (J (0, 0, 0, 1)).2.1 E
      ∧ HasDerivAt (fun t => (e2FluxC γ nx ny (r, mx, my, t)).2.2.1) (J (0, 0, 0, 1)).2.2.1 E
      ∧ HasDerivAt (fun t => (e2FluxC γ nx ny (r, mx, my, t)).2.2.2) (J (0, 0, 0, 1)).2.2.2 E)) := by
  intro J
  obtain ⟨p1, p2, p3, p4⟩ := partials4_of_hasFDerivAt (e2FluxC_hasFDerivAt γ nx ny r mx my E hγ hr)
  rw [e2JacCLM_apply] at p1 p2 p3 p4
  exact ⟨hasDerivAt_comps4 p1, hasDerivAt_comps4 p2, hasDerivAt_comps4 p3, hasDerivAt_comps4 p4⟩

/-! ### eigenvalues of the Jacobian in a unit direction -/

/-- acoustic eigenvector, written for any real `c` with `(γ-1) H = c² + (γ-1) q²/2` (used with `c` and `-c`) -/
theorem e2_eigvec_acoustic (γ nx ny u v H c : ℝ) (hn : nx ^ 2 + ny ^ 2 = 1)
    (hH : (γ - 1) * H = c ^ 2 + (γ - 1) * ((u ^ 2 + v ^ 2) / 2)) :
    e2JacMul γ nx ny u v H (1, u + c * nx, v + c * ny, H + c * (u * nx + v * ny))
      = ((u * nx + v * ny + c) * 1, (u * nx + v * ny + c) * (u + c * nx), (u * nx + v * ny + c) * (v + c * ny),
         (u * nx + v * ny + c) * (H + c * (u * nx + v * ny))) := by
  refine Prod.ext ?_ (Prod.ext ?_ (Prod.ext ?_ ?_)) <;> simp only [e2JacMul]
  · linear_combination c * hn
  · linear_combination nx * hH + u * c * hn
  · linear_combination ny * hH + v * c * hn
  · linear_combination (u * nx + v * ny) * hH + H * c * hn

/-- entropy eigenvector (any normal) -/
theorem e2_eigvec_entropy (γ nx ny u v H : ℝ) :
    e2JacMul γ nx ny u v H (1, u, v, (u ^ 2 + v ^ 2) / 2)
      = ((u * nx + v * ny) * 1, (u * nx + v * ny) * u, (u * nx + v * ny) * v,
         (u * nx + v * ny) * ((u ^ 2 + v ^ 2) / 2)) := by
  refine Prod.ext ?_ (Prod.ext ?_ (Prod.ext ?_ ?_)) <;> simp only [e2JacMul] <;> ring

/-- shear eigenvector (any normal): tangential momentum perturbation -/
theorem e2_eigvec_shear (γ nx ny u v H : ℝ) :
    e2JacMul γ nx ny u v H (0, -ny, nx, v * nx - u * ny)
      = ((u * nx + v * ny) * 0, (u * nx + v * ny) * (-ny), (u * nx + v * ny) * nx,
         (u * nx + v * ny) * (v * nx - u * ny)) := by
  refine Prod.ext ?_ (Prod.ext ?_ (Prod.ext ?_ ?_)) <;> simp only [e2JacMul] <;> ring

/-- eigenpairs of the Jacobian in a unit direction `n`: `un - c`, `un` (entropy and shear), `un + c` with
`un = u nx + v ny`, `c = √(γ p/ρ)`, `H = c²/(γ-1) + (u²+v²)/2`; largest modulus `|un| + c`
(no sign condition on `ρ, p` is needed for these identities: only `c ≥ 0` and the relation between `H` and `c`) -/
theorem e2_eigen (γ nx ny r u v p : ℝ) (hγ : 1 < γ) (hn : nx ^ 2 + ny ^ 2 = 1) :
    (let c := Real.sqrt (γ * p / r)
     let H := c ^ 2 / (γ - 1) + (u ^ 2 + v ^ 2) / 2
     let un := u * nx + v * ny
     let J := e2JacMul γ nx ny u v H
     J (1, u - c * nx, v - c * ny, H - c * un) = (un - c) • ((1, u - c * nx, v - c * ny, H - c * un) : T4 ℝ)
     ∧ J (1, u, v, (u ^ 2 + v ^ 2) / 2) = un • ((1, u, v, (u ^ 2 + v ^ 2) / 2) : T4 ℝ)
     ∧ J (0, -ny, nx, v * nx - u * ny) = un • ((0, -ny, nx, v * nx - u * ny) : T4 ℝ)
     ∧ J (1, u + c * nx, v + c * ny, H + c * un) = (un + c) • ((1, u + c * nx, v + c * ny, H + c * un) : T4 ℝ)
     ∧ max |un - c| (max |un| |un + c|) = |un| + c) := by
  intro c H un J
  have hc0 : 0 ≤ c := Real.sqrt_nonneg _
  have hg0 : γ - 1 ≠ 0 := by linarith
  have hH : (γ - 1) * H = c ^ 2 + (γ - 1) * ((u ^ 2 + v ^ 2) / 2) := by
    show (γ - 1) * (c ^ 2 / (γ - 1) + (u ^ 2 + v ^ 2) / 2) = _
    field_simp
  have hHm : (γ - 1) * H = (-c) ^ 2 + (γ - 1) * ((u ^ 2 + v ^ 2) / 2) := by rw [neg_sq]; exact hH
  have hm := e2_eigvec_acoustic γ nx ny u v H (-c) hn hHm
  have hpl := e2_eigvec_acoustic γ nx ny u v H c hn hH
  clear_value H c
  refine ⟨?_, ?_, ?_, ?_, ?_⟩
  · simp only [J, un, Prod.smul_mk, smul_eq_mul]
    simpa only [neg_mul, ← sub_eq_add_neg] using hm
  · simp only [J, un, Prod.smul_mk, smul_eq_mul]
    exact e2_eigvec_entropy γ nx ny u v H
  · simp only [J, un, Prod.smul_mk, smul_eq_mul]
    exact e2_eigvec_shear γ nx ny u v H
  · simp only [J, un, Prod.smul_mk, smul_eq_mul]
    exact hpl
  · have h1 := max_abs_pm un c hc0
    have h2 : |un| ≤ |un| + c := by linarith
    rw [max_comm |un| |un + c|, ← max_assoc, max_comm |un - c| |un + c|, h1]
    exact max_eq_left h2

/-- every real eigenvalue of the Jacobian in a unit direction is `un - c`, `un` or `un + c`; direct argument in
characteristic variables (`c` any real with `(γ-1) H = c² + (γ-1) q²/2`) -/
theorem e2_eig_only (γ nx ny u v H c l : ℝ) (hγ : γ - 1 ≠ 0) (hn : nx ^ 2 + ny ^ 2 = 1)
    (hH : (γ - 1) * H = c ^ 2 + (γ - 1) * ((u ^ 2 + v ^ 2) / 2))
    (h : IsEig (e2JacMul γ nx ny u v H) l) :
    l = u * nx + v * ny - c ∨ l = u * nx + v * ny ∨ l = u * nx + v * ny + c := by
  obtain ⟨⟨a, b, d, e⟩, hw, hJ⟩ := h
  simp only [e2JacMul, Prod.smul_mk, smul_eq_mul, Prod.mk.injEq] at hJ
  obtain ⟨e1, e2, e3, e4⟩ := hJ
  by_cases hμ : l - (u * nx + v * ny) = 0
  · right; left; linarith
  -- perturbations of momentum relative to the flow, of pressure, and their normal / tangential parts
  have M0 : (l - (u * nx + v * ny)) * a = nx * (b - u * a) + ny * (d - v * a) := by
    linear_combination (-1 : ℝ) * e1
  have M1 : (l - (u * nx + v * ny)) * (b - u * a)
      = nx * ((γ - 1) * (e - u * b - v * d + (u ^ 2 + v ^ 2) / 2 * a)) := by
    linear_combination (-1 : ℝ) * e2 + u * e1
  have M2 : (l - (u * nx + v * ny)) * (d - v * a)
      = ny * ((γ - 1) * (e - u * b - v * d + (u ^ 2 + v ^ 2) / 2 * a)) := by
    linear_combination (-1 : ℝ) * e3 + v * e1
  have M3 : (l - (u * nx + v * ny)) * ((γ - 1) * (e - u * b - v * d + (u ^ 2 + v ^ 2) / 2 * a))
      = c ^ 2 * (nx * (b - u * a) + ny * (d - v * a)) := by
    linear_combination (γ - 1) * (-e4 + u * e2 + v * e3 - (u ^ 2 + v ^ 2) / 2 * e1)
      + (nx * (b - u * a) + ny * (d - v * a)) * hH
  set μ := l - (u * nx + v * ny) with hμdef
  set mu := b - u * a with hmu
  set mv := d - v * a with hmv
  set dp := (γ - 1) * (e - u * b - v * d + (u ^ 2 + v ^ 2) / 2 * a) with hdp
  have M4 : μ * (nx * mu + ny * mv) = dp := by linear_combination nx * M1 + ny * M2 + dp * hn
  have M5 : μ * (-ny * mu + nx * mv) = 0 := by linear_combination (-ny) * M1 + nx * M2
  have ht : -ny * mu + nx * mv = 0 := (mul_eq_zero.mp M5).resolve_left hμ
  have key : ((μ - c) * (μ + c)) * (nx * mu + ny * mv) = 0 := by linear_combination μ * M4 + M3
  rcases mul_eq_zero.mp key with h0 | hs
  · rcases mul_eq_zero.mp h0 with h1 | h1
    · right; right; linarith
    · left; linarith
  · exfalso
    apply hw
    have hdp0 : dp = 0 := by rw [← M4, hs, mul_zero]
    have ha : a = 0 := by
      rw [hs] at M0
      exact (mul_eq_zero.mp M0).resolve_left hμ
    have hmu0 : mu = 0 := by linear_combination nx * hs - ny * ht - mu * hn
    have hmv0 : mv = 0 := by linear_combination ny * hs + nx * ht - mv * hn
    have hb : b = 0 := by rw [hmu, ha] at hmu0; linarith
    have hd : d = 0 := by rw [hmv, ha] at hmv0; linarith
    have he : e = 0 := by
      rw [hdp, ha, hb, hd] at hdp0
      rcases mul_eq_zero.mp hdp0 with h0 | h0
      · exact absurd h0 hγ
      · linarith
    rw [ha, hb, hd, he]; rfl

/-- the real eigenvalues of the Jacobian in a unit direction are exactly `un - c`, `un`, `un + c` -/
theorem e2_isEig (γ nx ny r u v p l : ℝ) (hγ : 1 < γ) (hn : nx ^ 2 + ny ^ 2 = 1) :
    (let c := Real.sqrt (γ * p / r)
     let H := c ^ 2 / (γ - 1) + (u ^ 2 + v ^ 2) / 2
     let un := u * nx + v * ny
     IsEig (e2JacMul γ nx ny u v H) l ↔ l = un - c ∨ l = un ∨ l = un + c) := by
  intro c H un
  have hg0 : γ - 1 ≠ 0 := by linarith
  have hE := e2_eigen γ nx ny r u v p hγ hn
  simp only at hE
  obtain ⟨hminus, hzero, -, hplus, -⟩ := hE
  have hH : (γ - 1) * H = c ^ 2 + (γ - 1) * ((u ^ 2 + v ^ 2) / 2) := by
    show (γ - 1) * (c ^ 2 / (γ - 1) + (u ^ 2 + v ^ 2) / 2) = _
    field_simp
  constructor
  · exact e2_eig_only γ nx ny u v H c l hg0 hn hH
  · rintro (rfl | rfl | rfl)
    · exact ⟨_, by simp, hminus⟩
    · exact ⟨_, by simp, hzero⟩
    · exact ⟨_, by simp, hplus⟩

/-- spectral radius of the Jacobian in the unit direction `n`: `|un| + c` -/
theorem e2_specRadius (γ nx ny r u v p : ℝ) (hγ : 1 < γ) (hn : nx ^ 2 + ny ^ 2 = 1) :
    (let c := Real.sqrt (γ * p / r)
     let H := c ^ 2 / (γ - 1) + (u ^ 2 + v ^ 2) / 2
     IsSpecRadius (e2JacMul γ nx ny u v H) (|u * nx + v * ny| + c)) := by
  intro c H
  have heig := fun l => e2_isEig γ nx ny r u v p l hγ hn
  simp only at heig
  exact specRadius_of_pm _ (u * nx + v * ny) c (Real.sqrt_nonneg _) ((heig _).mpr (Or.inl rfl))
    ((heig _).mpr (Or.inr (Or.inr rfl))) (fun l hl => (heig l).mp hl)

/-! ### the characteristic polynomial -/

/-- the closed-form Jacobian as a 4×4 matrix (same entries as `e2JacMul`, see `e2JacMat_mulVec`) -/
noncomputable def e2JacMat (γ nx ny u v H : ℝ) : Matrix (Fin 4) (Fin 4) ℝ :=
  !![0, nx, ny, 0;
     (γ - 1) / 2 * (u ^ 2 + v ^ 2) * nx - u * (u * nx + v * ny), (u * nx + v * ny) - (γ - 2) * u * nx,
       u * ny - (γ - 1) * v * nx, (γ - 1) * nx;
     (γ - 1) / 2 * (u ^ 2 + v ^ 2) * ny - v * (u * nx + v * ny), v * nx - (γ - 1) * u * ny,
       (u * nx + v * ny) - (γ - 2) * v * ny, (γ - 1) * ny;
     ((γ - 1) / 2 * (u ^ 2 + v ^ 2) - H) * (u * nx + v * ny), H * nx - (γ - 1) * u * (u * nx + v * ny),
       H * ny - (γ - 1) * v * (u * nx + v * ny), γ * (u * nx + v * ny)]

theorem e2JacMat_mulVec (γ nx ny u v H : ℝ) (w : T4 ℝ) :
    (e2JacMat γ nx ny u v H).mulVec ![w.1, w.2.1, w.2.2.1, w.2.2.2]
      = (let F := e2JacMul γ nx ny u v H w; ![F.1, F.2.1, F.2.2.1, F.2.2.2]) := by
  simp only [e2JacMat, e2JacMul]
  ext i
  fin_cases i <;> simp [Matrix.mulVec, dotProduct, Fin.sum_univ_succ] <;> ring

/-- characteristic polynomial of the 4×4 Jacobian for any normal: `det (l I - J) = (l - un)² ((l - un)² - c² |n|²)` -/
theorem e2_charpoly (γ nx ny u v c l : ℝ) (hγ : γ - 1 ≠ 0) :
    (let H := c ^ 2 / (γ - 1) + (u ^ 2 + v ^ 2) / 2
     (Matrix.scalar (Fin 4) l - e2JacMat γ nx ny u v H).det
       = (l - (u * nx + v * ny)) ^ 2 * ((l - (u * nx + v * ny)) ^ 2 - c ^ 2 * (nx ^ 2 + ny ^ 2))) := by
  intro H
  simp only [e2JacMat]
  rw [Matrix.det_succ_row_zero]
  simp [Fin.sum_univ_succ, Matrix.det_fin_three, Fin.succAbove]
  simp only [H]
  field_simp
  ring

/-- the same with Mathlib's `Matrix.charpoly`, unit normal: `(l - un)² (l - (un - c)) (l - (un + c))` -/
theorem e2_charpoly_eval (γ nx ny u v c l : ℝ) (hγ : γ - 1 ≠ 0) (hn : nx ^ 2 + ny ^ 2 = 1) :
    (let H := c ^ 2 / (γ - 1) + (u ^ 2 + v ^ 2) / 2
     (e2JacMat γ nx ny u v H).charpoly.eval l
       = (l - (u * nx + v * ny)) ^ 2 * ((l - (u * nx + v * ny - c)) * (l - (u * nx + v * ny + c)))) := by
  intro H
  rw [Matrix.eval_charpoly]
  have h := e2_charpoly γ nx ny u v c l hγ
  simp only at h
  rw [h, hn]
  ring

/-- the real roots of the characteristic polynomial in a unit direction are exactly `un - c`, `un`, `un + c` -/
theorem e2_charpoly_roots (γ nx ny u v c l : ℝ) (hγ : γ - 1 ≠ 0) (hn : nx ^ 2 + ny ^ 2 = 1) :
    (let H := c ^ 2 / (γ - 1) + (u ^ 2 + v ^ 2) / 2
     (e2JacMat γ nx ny u v H).charpoly.eval l = 0
       ↔ l = u * nx + v * ny - c ∨ l = u * nx + v * ny ∨ l = u * nx + v * ny + c) := by
  intro H
  have h := e2_charpoly_eval γ nx ny u v c l hγ hn
  simp only at h
  rw [h]
  constructor
  · intro h0
    rcases mul_eq_zero.mp h0 with h1 | h1
    · right; left; have := pow_eq_zero_iff (two_ne_zero) |>.mp h1; linarith
    · rcases mul_eq_zero.mp h1 with h2 | h2
      · left; linarith
      · right; right; linarith
  · rintro (rfl | rfl | rfl) <;> ring

/-- eigenvalues of the map `e2JacMul` = real roots of the characteristic polynomial of the matrix `e2JacMat` -/
theorem e2_isEig_iff_root (γ nx ny r u v p l : ℝ) (hγ : 1 < γ) (hn : nx ^ 2 + ny ^ 2 = 1) :
    (let c := Real.sqrt (γ * p / r)
     let H := c ^ 2 / (γ - 1) + (u ^ 2 + v ^ 2) / 2
     IsEig (e2JacMul γ nx ny u v H) l ↔ (e2JacMat γ nx ny u v H).charpoly.eval l = 0) := by
  intro c H
  have h1 := e2_isEig γ nx ny r u v p l hγ hn
  have h2 := e2_charpoly_roots γ nx ny u v c l (by linarith) hn
  simp only at h1 h2
  rw [h1, h2]

/-! ### the largest directional spectral radius -/

/-- Cauchy–Schwarz: the normal velocity in a unit direction is at most the velocity magnitude -/
theorem abs_un_le (u v nx ny : ℝ) (hn : nx ^ 2 + ny ^ 2 = 1) : |u * nx + v * ny| ≤ Real.sqrt (u ^ 2 + v ^ 2) := by
  apply Real.abs_le_sqrt
  have h : (u * nx + v * ny) ^ 2 + (u * ny - v * nx) ^ 2 = (u ^ 2 + v ^ 2) * (nx ^ 2 + ny ^ 2) := by ring
  rw [hn, mul_one] at h
  nlinarith [sq_nonneg (u * ny - v * nx)]

/-- the bound is attained in the direction of the velocity, `n = V/|V|` -/
theorem un_attained (u v : ℝ) (hV : u ^ 2 + v ^ 2 ≠ 0) :
    (let q := Real.sqrt (u ^ 2 + v ^ 2)
     (u / q) ^ 2 + (v / q) ^ 2 = 1 ∧ |u * (u / q) + v * (v / q)| = q) := by
  intro q
  have hq2 : 0 < u ^ 2 + v ^ 2 := lt_of_le_of_ne (by positivity) (Ne.symm hV)
  have hq : 0 < q := Real.sqrt_pos.mpr hq2
  have hqq : q ^ 2 = u ^ 2 + v ^ 2 := Real.sq_sqrt hq2.le
  have hq0 : q ≠ 0 := hq.ne'
  refine ⟨?_, ?_⟩
  · rw [div_pow, div_pow, ← add_div, ← hqq, div_self (pow_ne_zero 2 hq0)]
  · have : u * (u / q) + v * (v / q) = q := by
      field_simp
      linarith
    rw [this, abs_of_pos hq]

/-- **maximum over directions**: the largest of `|V·n| + c` over all unit `n` is `|V| + c`
(attained at `n = V/|V|`, and at every `n` when `V = 0`) -/
theorem dir_max (u v c : ℝ) :
    IsGreatest {s : ℝ | ∃ nx ny : ℝ, nx ^ 2 + ny ^ 2 = 1 ∧ s = |u * nx + v * ny| + c}
      (Real.sqrt (u ^ 2 + v ^ 2) + c) := by
  constructor
  · by_cases hV : u ^ 2 + v ^ 2 = 0
    · refine ⟨1, 0, by norm_num, ?_⟩
      have hu : u = 0 := by nlinarith [sq_nonneg u, sq_nonneg v]
      have hv : v = 0 := by nlinarith [sq_nonneg u, sq_nonneg v]
      rw [hu, hv]
      simp
    · obtain ⟨h1, h2⟩ := un_attained u v hV
      exact ⟨_, _, h1, by rw [h2]⟩
  · rintro s ⟨nx, ny, hn, rfl⟩
    have := abs_un_le u v nx ny hn
    linarith

/-- when the fluid is at rest every unit direction attains the maximum -/
theorem dir_max_rest (c nx ny : ℝ) :
    |(0 : ℝ) * nx + 0 * ny| + c = Real.sqrt ((0 : ℝ) ^ 2 + 0 ^ 2) + c := by
  simp

/-- the set of directional spectral radii (over unit normals) is the set of `|V·n| + c` -/
theorem specRadius_dirs (γ r u v p : ℝ) (hγ : 1 < γ) :
    (let c := Real.sqrt (γ * p / r)
     let H := c ^ 2 / (γ - 1) + (u ^ 2 + v ^ 2) / 2
     {s : ℝ | ∃ nx ny : ℝ, nx ^ 2 + ny ^ 2 = 1 ∧ IsSpecRadius (e2JacMul γ nx ny u v H) s}
       = {s : ℝ | ∃ nx ny : ℝ, nx ^ 2 + ny ^ 2 = 1 ∧ s = |u * nx + v * ny| + c}) := by
  intro c H
  ext s
  constructor
  · rintro ⟨nx, ny, hn, hs⟩
    exact ⟨nx, ny, hn, hs.unique (e2_specRadius γ nx ny r u v p hγ hn)⟩
  · rintro ⟨nx, ny, hn, rfl⟩
    exact ⟨nx, ny, hn, e2_specRadius γ nx ny r u v p hγ hn⟩

/-- **C18, 2D Euler.**  At every state `(ρ, u, v, p)`, `ρ, p > 0`, `γ > 1`, with `c = √(γ p/ρ)`,
`H = c²/(γ-1) + (u²+v²)/2`, `Q = prim2cons (ρ, u, v, p)`:
for every normal `n` the map `e2JacCLM γ n u v H` (= `e2JacMul γ n u v H`) is the derivative at `Q` of the model's
flux through a face of normal `n` in conservative variables; for every unit `n` its real eigenvalues are exactly
`V·n - c`, `V·n`, `V·n + c` and its spectral radius is `|V·n| + c`; the largest spectral radius over all unit
directions is `|V| + c = √(u²+v²) + c`; and the time step of the model is `cfl·dx` over this maximum. -/
theorem e2_spectral (γ cfl dx r u v p : ℝ) (hγ : 1 < γ) (hr : 0 < r) (hp : 0 < p) :
    (let c := Real.sqrt (γ * p / r)
     let H := c ^ 2 / (γ - 1) + (u ^ 2 + v ^ 2) / 2
     let Q := e2Prim2cons γ r u v p
     let J := fun nx ny : ℝ => e2JacCLM γ nx ny u v H
     let lam := Real.sqrt (u ^ 2 + v ^ 2) + c
     (∀ nx ny, HasFDerivAt (e2FluxC γ nx ny) (J nx ny) Q)
     ∧ (∀ nx ny w, J nx ny w = e2JacMul γ nx ny u v H w)
     ∧ (∀ nx ny, nx ^ 2 + ny ^ 2 = 1 →
          ∀ l, IsEig (J nx ny) l ↔ l = u * nx + v * ny - c ∨ l = u * nx + v * ny ∨ l = u * nx + v * ny + c)
     ∧ (∀ nx ny, nx ^ 2 + ny ^ 2 = 1 → IsSpecRadius (J nx ny) (|u * nx + v * ny| + c))
     ∧ IsGreatest {s : ℝ | ∃ nx ny : ℝ, nx ^ 2 + ny ^ 2 = 1 ∧ IsSpecRadius (J nx ny) s} lam
     ∧ e2Dt γ cfl dx Q.1 Q.2.1 Q.2.2.1 Q.2.2.2 = cfl * dx / lam) := by
  intro c H Q J lam
  have hg0 : γ - 1 ≠ 0 := by linarith
  have hJ : ∀ nx ny, (J nx ny : T4 ℝ → T4 ℝ) = e2JacMul γ nx ny u v H :=
    fun nx ny => funext (e2JacCLM_apply γ nx ny u v H)
  have hc2 : c ^ 2 = γ * p / r := Real.sq_sqrt (by positivity)
  have hrad : ∀ nx ny, nx ^ 2 + ny ^ 2 = 1 → IsSpecRadius (J nx ny) (|u * nx + v * ny| + c) := by
    intro nx ny hn; rw [hJ]; exact e2_specRadius γ nx ny r u v p hγ hn
  refine ⟨?_, fun nx ny => e2JacCLM_apply γ nx ny u v H, ?_, hrad, ?_, e2Dt_formula γ cfl dx r u v p hγ hr⟩
  · intro nx ny
    have := e2FluxC_hasFDerivAt γ nx ny r (r * u) (r * v) (p / (γ - 1) + 1 / 2 * r * (u ^ 2 + v ^ 2)) hg0 hr.ne'
    have hu : r * u / r = u := mul_div_cancel_left₀ u hr.ne'
    have hv : r * v / r = v := mul_div_cancel_left₀ v hr.ne'
    have hHt : e2Htot γ r (r * u) (r * v) (p / (γ - 1) + 1 / 2 * r * (u ^ 2 + v ^ 2)) = H := by
      show _ = c ^ 2 / (γ - 1) + (u ^ 2 + v ^ 2) / 2
      rw [hc2]
      simp only [e2Htot, e2Kinetic]
      field_simp
      ring
    rwa [hu, hv, hHt] at this
  · intro nx ny hn l
    rw [hJ]; exact e2_isEig γ nx ny r u v p l hγ hn
  · have hset : {s : ℝ | ∃ nx ny : ℝ, nx ^ 2 + ny ^ 2 = 1 ∧ IsSpecRadius (J nx ny) s}
        = {s : ℝ | ∃ nx ny : ℝ, nx ^ 2 + ny ^ 2 = 1 ∧ s = |u * nx + v * ny| + c} := by
      have := specRadius_dirs γ r u v p hγ
      simp only at this
      simp only [hJ]
      exact this
    rw [hset]
    exact dir_max u v c

/-! ### the same in Mathlib's vocabulary: the spectrum of the derivative -/

/-- the spectrum of the 2D Euler flux Jacobian in a unit direction is `{un - c, un, un + c}` -/
theorem e2_spectrum (γ nx ny r u v p : ℝ) (hγ : 1 < γ) (hn : nx ^ 2 + ny ^ 2 = 1) :
    (let c := Real.sqrt (γ * p / r)
     let H := c ^ 2 / (γ - 1) + (u ^ 2 + v ^ 2) / 2
     spectrum ℝ (e2JacCLM γ nx ny u v H : Module.End ℝ (T4 ℝ))
       = {u * nx + v * ny - c, u * nx + v * ny, u * nx + v * ny + c}) := by
  intro c H
  ext l
  rw [← Module.End.hasEigenvalue_iff_mem_spectrum, ← isEig_iff_hasEigenvalue]
  have hJ : (e2JacCLM γ nx ny u v H : T4 ℝ → T4 ℝ) = e2JacMul γ nx ny u v H :=
    funext (e2JacCLM_apply γ nx ny u v H)
  rw [hJ]
  have h3 := e2_isEig γ nx ny r u v p l hγ hn
  simpa using h3

/-! ### non-vacuity: `γ = 7/5`, `ρ = 1`, `V = (3, 4)`, `p = 5/7`: `|V| = 5`, `c = 1`, `H = 15`,
conservative state `(1, 3, 4, 100/7)`; direction of the velocity `n = (3/5, 4/5)` -/

theorem sqrt_ex1 : Real.sqrt (7 / 5 * (5 / 7) / 1) = 1 := by
  rw [show (7 / 5 * (5 / 7) / 1 : ℝ) = 1 by norm_num]; exact Real.sqrt_one
theorem sqrt_ex2 : Real.sqrt ((3 : ℝ) ^ 2 + 4 ^ 2) = 5 := by
  rw [show ((3 : ℝ) ^ 2 + 4 ^ 2) = 5 ^ 2 by norm_num]; exact Real.sqrt_sq (by norm_num)

/-- the flux function agrees with the model's HLLE and centered fluxes on equal states -/
example : e2FluxC (7/5) (3/5) (4/5) (1, 3, 4, 100/7) = e2Hlle (7/5) (3/5) (4/5) 1 3 4 (5/7) 1 3 4 (5/7)
    ∧ e2FluxC (7/5) (3/5) (4/5) (1, 3, 4, 100/7) = e2Centered (7/5) (3/5) (4/5) 1 3 4 (5/7) 1 3 4 (5/7) := by
  have hp : e2Pressure (7/5 : ℝ) 1 3 4 (100/7) = 5/7 := by simp only [e2Pressure, e2Kinetic]; norm_num
  have h1 := e2FluxC_eq_hlle (7/5) (3/5) (4/5) (1, 3, 4, 100/7) (by norm_num) (by norm_num)
    (by rw [hp]; norm_num)
  have h2 := e2FluxC_eq_centered (7/5) (3/5) (4/5) (1, 3, 4, 100/7)
  simp only [e2Cons2prim, hp] at h1 h2
  norm_num at h1 h2
  exact ⟨h1, h2⟩

/-- the 16 partial derivatives at that state in the direction `(3/5, 4/5)`: Jacobian
`[[0, 3/5, 4/5, 0], [-12, 152/25, 36/25, 6/25], [-16, 36/25, 173/25, 8/25], [-50, 3, 4, 7]]` -/
example :
    (HasDerivAt (fun t => (e2FluxC (7/5) (3/5) (4/5) (t, 3, 4, 100/7)).1) 0 1
      ∧ HasDerivAt (fun t => (e2FluxC (7/5) (3/5) (4/5) (t, 3, 4, 100/7)).2.1) (-12) 1
      ∧ HasDerivAt (fun t => (e2FluxC (7/5) (3/5) (4/5) (t, 3, 4, 100/7)).2.2.1) (-16) 1
      ∧ HasDerivAt (fun t => (e2FluxC (7/5) (3/5) (4/5) (t, 3, 4, 100/7)).2.2.2) (-50) 1)
    ∧ (HasDerivAt (fun t => (e2FluxC (7/5) (3/5) (4/5) (1, t, 4, 100/7)).1) (3/5) 3
      ∧ HasDerivAt (fun t => (e2FluxC (7/5) (3/5) (4/5) (1, t, 4, 100/7)).2.1) (152/25) 3
      ∧ HasDerivAt (fun t => (e2FluxC (7/5) (3/5) (4/5) (1, t, 4, 100/7)).2.2.1) (36/25) 3
      ∧ HasDerivAt (fun t => (e2FluxC (7/5) (3/5) (4/5) (1, t, 4, 100/7)).2.2.2) 3 3)
    ∧ (HasDerivAt (fun t => (e2FluxC (7/5) (3/5) (4/5) (1, 3, t, 100/7)).1) (4/5) 4
      ∧ HasDerivAt (fun t => (e2FluxC (7/5) (3/5) (4/5) (1, 3, t, 100/7)).2.1) (36/25) 4
      ∧ HasDerivAt (fun t => (e2FluxC (7/5) (3/5) (4/5) (1, 3, t, 100/7)).2.2.1) (173/25) 4
      ∧ HasDerivAt (fun t => (e2FluxC (7/5) (3/5) (4/5) (1, 3, t, 100/7)).2.2.2) 4 4)
    ∧ (HasDerivAt (fun t => (e2FluxC (7/5) (3/5) (4/5) (1, 3, 4, t)).1) 0 (100/7)
      ∧ HasDerivAt (fun t => (e2FluxC (7/5) (3/5) (4/5) (1, 3, 4, t)).2.1) (6/25) (100/7)
      ∧ HasDerivAt (fun t => (e2FluxC (7/5) (3/5) (4/5) (1, 3, 4, t)).2.2.1) (8/25) (100/7)
      ∧ HasDerivAt (fun t => (e2FluxC (7/5) (3/5) (4/5) (1, 3, 4, t)).2.2.2) 7 (100/7)) := by
  have h := e2FluxC_partial (7/5) (3/5) (4/5) 1 3 4 (100/7) (by norm_num) (by norm_num)
  have hH : e2Htot (7/5 : ℝ) 1 3 4 (100/7) = 15 := by simp only [e2Htot, e2Kinetic]; norm_num
  simp only [hH, e2JacMul] at h
  norm_num at h
  exact h

/-- the maximum over directions for `V = (3, 4)`, `c = 1` is `6` -/
example : IsGreatest {s : ℝ | ∃ nx ny : ℝ, nx ^ 2 + ny ^ 2 = 1 ∧ s = |3 * nx + 4 * ny| + 1} 6 := by
  have h := dir_max 3 4 1
  rw [sqrt_ex2] at h
  norm_num at h
  exact h

/-- `e2_spectral` at that state: time step `cfl·dx/6`; in the direction of the velocity the eigenvalues are
`4, 5, 6` (spectral radius `6`, the maximum over directions); in the x-direction they are `2, 3, 4` (spectral
radius `4 < 6`); the Jacobian is the derivative of the flux -/
example (cfl dx : ℝ) : e2Dt (7/5) cfl dx 1 3 4 (100/7) = cfl * dx / 6
    ∧ (∀ l, IsEig (e2JacMul (7/5) (3/5) (4/5) 3 4 15) l ↔ l = 4 ∨ l = 5 ∨ l = 6)
    ∧ IsSpecRadius (e2JacMul (7/5) (3/5) (4/5) 3 4 15) 6
    ∧ (∀ l, IsEig (e2JacMul (7/5) 1 0 3 4 15) l ↔ l = 2 ∨ l = 3 ∨ l = 4)
    ∧ IsSpecRadius (e2JacMul (7/5) 1 0 3 4 15) 4
    ∧ IsGreatest {s : ℝ | ∃ nx ny : ℝ, nx ^ 2 + ny ^ 2 = 1 ∧ IsSpecRadius (e2JacMul (7/5) nx ny 3 4 15) s} 6
    ∧ HasFDerivAt (e2FluxC (7/5) (3/5) (4/5)) (e2JacCLM (7/5) (3/5) (4/5) 3 4 15) (1, 3, 4, 100/7) := by
  have h := e2_spectral (7/5) cfl dx 1 3 4 (5/7) (by norm_num) one_pos (by norm_num)
  simp only [sqrt_ex1, sqrt_ex2, e2Prim2cons] at h
  obtain ⟨h1, h2, h3, h4, h5, h6⟩ := h
  have hJ : ∀ nx ny : ℝ, (e2JacCLM (7/5) nx ny 3 4 (1 ^ 2 / (7 / 5 - 1) + (3 ^ 2 + 4 ^ 2) / 2) : T4 ℝ → T4 ℝ)
      = e2JacMul (7/5) nx ny 3 4 15 := by
    intro nx ny
    funext w
    rw [e2JacCLM_apply]
    norm_num
  simp only [hJ] at h3 h4 h5
  have h3a := h3 (3/5) (4/5) (by norm_num)
  have h4a := h4 (3/5) (4/5) (by norm_num)
  have h3b := h3 1 0 (by norm_num)
  have h4b := h4 1 0 (by norm_num)
  have h1a := h1 (3/5) (4/5)
  norm_num at h1a h3a h4a h3b h4b h5 h6
  exact ⟨h6, h3a, h4a, h3b, h4b, h5, h1a⟩

/-- with `p = 1` (`c = √(7/5)`): `|V| = 5`, time step `cfl·dx/(5 + √(7/5))` -/
example (cfl dx : ℝ) : e2Dt (7/5) cfl dx 1 3 4 15 = cfl * dx / (5 + Real.sqrt (7/5)) := by
  have h := (e2_spectral (7/5) cfl dx 1 3 4 1 (by norm_num) one_pos one_pos).2.2.2.2.2
  simp only [sqrt_ex2, e2Prim2cons] at h
  norm_num at h
  rw [Real.sqrt_div (by norm_num : (0 : ℝ) ≤ 7)]
  exact h

/-- characteristic polynomial at that state, direction of the velocity: roots `4, 5 (double), 6` -/
example (l : ℝ) : (e2JacMat (7/5) (3/5) (4/5) 3 4 15).charpoly.eval l = (l - 5) ^ 2 * ((l - 4) * (l - 6)) := by
  have h := e2_charpoly_eval (7/5) (3/5) (4/5) 3 4 1 l (by norm_num) (by norm_num)
  norm_num at h
  exact h

end Flowdyn.C18c
