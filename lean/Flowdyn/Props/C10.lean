/-
C10 — first-order Riemann-flux schemes keep density, pressure and depth positive (PARTIAL).

Proved here: (1) the admissible set `G = {ρ > 0, 2ρE - m² > 0}` of the Euler equations (p > 0 ⇔ 2ρE - m² > 0
for γ > 1) is a convex cone; (2) for a wave speed `s` with `s - u ≥ c` (resp. `u - s ≥ c`) the vector
`s U - F(U)` (resp. `F(U) - s U`) is admissible — the two-sided Einfeldt bounds that the code's wave speeds
satisfy by construction (`min`/`max` with the one-sided speeds); (3) hence the HLL intermediate state is
admissible; (4) the HLL flux identities `F = F_L + s_L (U* - U_L) = F_R + s_R (U* - U_R)` and the resulting
one-step convex-combination form of the first-order update.  NOT proved: that CFL ≤ 1/2 on the *cell*
speeds `|u| + c` bounds the *face* wave speeds (the Roe-average speed can exceed both cell speeds), and
HLLC (Batten's conditions).
-/
import Flowdyn.Model.Kernels.Euler
import Flowdyn.Model.Kernels.ShallowWater
import Flowdyn.Lemmas.RealInst
import Mathlib.Tactic.Ring
import Mathlib.Tactic.Linarith
import Mathlib.Tactic.FieldSimp
import Mathlib.Tactic.Positivity

namespace Flowdyn.C10
open Flowdyn

/-- conservative Euler state `(ρ, m, E)` admissible: positive density and `2ρE - m² > 0`
(equivalently positive pressure when γ > 1) -/
def Adm (U : ℝ × ℝ × ℝ) : Prop := 0 < U.1 ∧ 0 < 2 * U.1 * U.2.2 - U.2.1 ^ 2

theorem adm_iff_pressure (γ r m E : ℝ) (hγ : 1 < γ) (hr : 0 < r) :
    Adm (r, m, E) ↔ 0 < r ∧ 0 < ePressure γ r m E := by
  have hg1 : 0 < γ - 1 := by linarith
  have key : ePressure γ r m E = (γ - 1) / (2 * r) * (2 * r * E - m ^ 2) := by
    unfold ePressure eKinetic; field_simp
  have hk : 0 < (γ - 1) / (2 * r) := by positivity
  unfold Adm
  simp only
  rw [key]
  constructor
  · rintro ⟨h1, h2⟩; exact ⟨h1, mul_pos hk h2⟩
  · rintro ⟨h1, h2⟩; exact ⟨h1, (mul_pos_iff_of_pos_left hk).mp h2⟩

/-- convex cone: closed under sums and positive multiples -/
theorem adm_add (U V : ℝ × ℝ × ℝ) (hU : Adm U) (hV : Adm V) :
    Adm (U.1 + V.1, U.2.1 + V.2.1, U.2.2 + V.2.2) := by
  obtain ⟨r1, m1, E1⟩ := U
  obtain ⟨r2, m2, E2⟩ := V
  unfold Adm at *
  simp only at *
  obtain ⟨hr1, h1⟩ := hU
  obtain ⟨hr2, h2⟩ := hV
  refine ⟨by linarith, ?_⟩
  have hrr : 0 < r1 * r2 := mul_pos hr1 hr2
  have hx : 0 ≤ r1 * E2 + r2 * E1 - m1 * m2 := by
    have h3 : 0 ≤ 2 * (r1 * r2) * (r1 * E2 + r2 * E1 - m1 * m2) := by
      nlinarith [sq_nonneg (r1 * m2 - r2 * m1), mul_pos (mul_pos hr1 hr1) h2,
        mul_pos (mul_pos hr2 hr2) h1]
    have h4 : 0 < 2 * (r1 * r2) := by positivity
    exact nonneg_of_mul_nonneg_right h3 h4
  nlinarith
theorem adm_smul (c : ℝ) (hc : 0 < c) (U : ℝ × ℝ × ℝ) (hU : Adm U) : Adm (c * U.1, c * U.2.1, c * U.2.2) := by
  obtain ⟨r1, m1, E1⟩ := U
  unfold Adm at *
  simp only at *
  obtain ⟨hr1, h1⟩ := hU
  refine ⟨mul_pos hc hr1, ?_⟩
  have : 2 * (c * r1) * (c * E1) - (c * m1) ^ 2 = c ^ 2 * (2 * r1 * E1 - m1 ^ 2) := by ring
  rw [this]; positivity

/-- conservative state and physical flux of a primitive state -/
noncomputable def consOf (γ r u p : ℝ) : ℝ × ℝ × ℝ := ePrim2cons γ r u p
noncomputable def fluxOf (γ r u p : ℝ) : ℝ × ℝ × ℝ := ePhys γ r u p

/-- right-going bound: `s - u ≥ c` ⇒ `s U - F(U)` admissible -/
theorem sU_minus_F_adm (γ r u p s : ℝ) (hγ : 1 < γ) (hr : 0 < r) (hp : 0 < p)
    (hs : Real.sqrt (γ * p / r) ≤ s - u) :
    Adm (s * (consOf γ r u p).1 - (fluxOf γ r u p).1, s * (consOf γ r u p).2.1 - (fluxOf γ r u p).2.1,
         s * (consOf γ r u p).2.2 - (fluxOf γ r u p).2.2) := by
  have hc2 : 0 < γ * p / r := by positivity
  have hc : 0 < Real.sqrt (γ * p / r) := Real.sqrt_pos.mpr hc2
  set a := s - u with ha
  have hapos : 0 < a := lt_of_lt_of_le hc hs
  have hsq : γ * p / r ≤ a ^ 2 := by
    have := Real.sq_sqrt hc2.le
    nlinarith [hs, hc]
  have hg1 : 0 < γ - 1 := by linarith
  have hg1' : γ - 1 ≠ 0 := ne_of_gt hg1
  have h1 : γ * p ≤ a ^ 2 * r := by
    have := (div_le_iff₀ hr).mp hsq; linarith
  have hsu : s = a + u := by rw [ha]; ring
  unfold Adm consOf fluxOf ePrim2cons ePhys
  simp only
  rw [hsu]
  refine ⟨?_, ?_⟩
  · have : (a + u) * r - r * u = a * r := by ring
    rw [this]; positivity
  · have key : 2 * ((a + u) * r - r * u) * ((a + u) * (p / (γ - 1) + 1 / 2 * r * u ^ 2)
          - r * u * (γ * p / r / (γ - 1) + 1 / 2 * u ^ 2)) - ((a + u) * (r * u) - (r * u ^ 2 + p)) ^ 2
        = p * (2 * a ^ 2 * r / (γ - 1) - p) := by
      field_simp; ring
    rw [key]
    apply mul_pos hp
    have : p < 2 * a ^ 2 * r / (γ - 1) := by
      rw [lt_div_iff₀ hg1]; nlinarith
    linarith
/-- left-going bound: `u - s ≥ c` ⇒ `F(U) - s U` admissible -/
theorem F_minus_sU_adm (γ r u p s : ℝ) (hγ : 1 < γ) (hr : 0 < r) (hp : 0 < p)
    (hs : Real.sqrt (γ * p / r) ≤ u - s) :
    Adm ((fluxOf γ r u p).1 - s * (consOf γ r u p).1, (fluxOf γ r u p).2.1 - s * (consOf γ r u p).2.1,
         (fluxOf γ r u p).2.2 - s * (consOf γ r u p).2.2) := by
  have hc2 : 0 < γ * p / r := by positivity
  have hc : 0 < Real.sqrt (γ * p / r) := Real.sqrt_pos.mpr hc2
  set a := u - s with ha
  have hapos : 0 < a := lt_of_lt_of_le hc hs
  have hsq : γ * p / r ≤ a ^ 2 := by
    have := Real.sq_sqrt hc2.le
    nlinarith [hs, hc]
  have hg1 : 0 < γ - 1 := by linarith
  have hg1' : γ - 1 ≠ 0 := ne_of_gt hg1
  have h1 : γ * p ≤ a ^ 2 * r := by
    have := (div_le_iff₀ hr).mp hsq; linarith
  have hsu : s = u - a := by rw [ha]; ring
  unfold Adm consOf fluxOf ePrim2cons ePhys
  simp only
  rw [hsu]
  refine ⟨?_, ?_⟩
  · have : r * u - (u - a) * r = a * r := by ring
    rw [this]; positivity
  · have key : 2 * (r * u - (u - a) * r) * (r * u * (γ * p / r / (γ - 1) + 1 / 2 * u ^ 2)
          - (u - a) * (p / (γ - 1) + 1 / 2 * r * u ^ 2)) - ((r * u ^ 2 + p) - (u - a) * (r * u)) ^ 2
        = p * (2 * a ^ 2 * r / (γ - 1) - p) := by
      field_simp; ring
    rw [key]
    apply mul_pos hp
    have : p < 2 * a ^ 2 * r / (γ - 1) := by
      rw [lt_div_iff₀ hg1]; nlinarith
    linarith

/-- HLL intermediate state `(sR U_R - sL U_L - (F_R - F_L))/(sR - sL)` -/
noncomputable def star (γ sL sR rL uL pL rR uR pR : ℝ) : ℝ × ℝ × ℝ :=
  let UL := consOf γ rL uL pL; let UR := consOf γ rR uR pR
  let FL := fluxOf γ rL uL pL; let FR := fluxOf γ rR uR pR
  ((sR * UR.1 - sL * UL.1 - (FR.1 - FL.1)) / (sR - sL),
   (sR * UR.2.1 - sL * UL.2.1 - (FR.2.1 - FL.2.1)) / (sR - sL),
   (sR * UR.2.2 - sL * UL.2.2 - (FR.2.2 - FL.2.2)) / (sR - sL))

/-- **star-state lemma**: with two-sided wave-speed bounds the HLL intermediate state is admissible -/
theorem star_adm (γ sL sR rL uL pL rR uR pR : ℝ) (hγ : 1 < γ) (hrL : 0 < rL) (hpL : 0 < pL) (hrR : 0 < rR) (hpR : 0 < pR)
    (hsL : sL ≤ uL - Real.sqrt (γ * pL / rL)) (hsR : uR + Real.sqrt (γ * pR / rR) ≤ sR) (hlt : sL < sR) :
    Adm (star γ sL sR rL uL pL rR uR pR) := by
  have hA := sU_minus_F_adm γ rR uR pR sR hγ hrR hpR (by linarith)
  have hB := F_minus_sU_adm γ rL uL pL sL hγ hrL hpL (by linarith)
  have hpos : 0 < sR - sL := by linarith
  have hd : 0 < 1 / (sR - sL) := by positivity
  have hsc := adm_smul _ hd _ (adm_add _ _ hA hB)
  simp only at hsc
  refine (congrArg Adm ?_).mp hsc
  unfold star
  refine Prod.ext ?_ (Prod.ext ?_ ?_) <;> simp only <;> ring

/-- the wave speeds of the code's HLLE flux satisfy the two-sided bounds by construction -/
theorem hlle_speeds_bound (γ rL uL pL rR uR pR : ℝ) :
    (let cL2 := γ * pL / rL; let cR2 := γ * pR / rR
     let HL := cL2 / (γ - 1) + 1/2 * uL ^ 2; let HR := cR2 / (γ - 1) + 1/2 * uR ^ 2
     let roe := eRoe γ rL uL HL rR uR HR
     let sL := min 0 (min (roe.1 - roe.2) (uL - Real.sqrt cL2))
     let sR := max 0 (max (roe.1 + roe.2) (uR + Real.sqrt cR2))
     sL ≤ uL - Real.sqrt cL2 ∧ uR + Real.sqrt cR2 ≤ sR ∧ sL ≤ 0 ∧ 0 ≤ sR) := by
  intro cL2 cR2 HL HR roe sL sR
  exact ⟨le_trans (min_le_right _ _) (min_le_right _ _),
    le_trans (le_max_right _ _) (le_max_right _ _), min_le_left _ _, le_max_left _ _⟩

/-- the Roe-average sound speed is positive (weighted Jensen / Cauchy–Schwarz) -/
theorem roe_c_pos (γ rL uL HL rR uR HR : ℝ) (hγ : 1 < γ) (hrL : 0 < rL) (hrR : 0 < rR)
    (hL : 0 < HL - 1/2 * uL ^ 2) (hR : 0 < HR - 1/2 * uR ^ 2) :
    0 < (eRoe γ rL uL HL rR uR HR).2 := by
  unfold eRoe
  simp only [HasSqrt.sqrt_real]
  set w := Real.sqrt (rR / rL) with hw
  have hwpos : 0 < w := Real.sqrt_pos.mpr (div_pos hrR hrL)
  have hg1 : 0 < γ - 1 := by linarith
  apply Real.sqrt_pos.mpr
  apply mul_pos _ hg1
  have h1w : (1 + w) ≠ 0 := by positivity
  have key : 1 / (1 + w) * (HL + HR * w) - 1 / 2 * (1 / (1 + w) * (uL + uR * w)) ^ 2
      = (1 / (1 + w)) ^ 2 * ((1 + w) * ((HL - 1/2 * uL ^ 2) + w * (HR - 1/2 * uR ^ 2))
          + 1/2 * w * (uL - uR) ^ 2) := by
    field_simp; ring
  rw [key]
  have : 0 ≤ 1/2 * w * (uL - uR) ^ 2 := by positivity
  have : 0 < (1 + w) * ((HL - 1/2 * uL ^ 2) + w * (HR - 1/2 * uR ^ 2)) := by positivity
  positivity

/-- HLL flux identity for arbitrary distinct speeds -/
theorem hll_identity (γ sL sR rL uL pL rR uR pR : ℝ) (hγ : 1 < γ) (hrL : 0 < rL) (hrR : 0 < rR)
    (hne : sR - sL ≠ 0) :
    (let cL2 := γ * pL / rL; let cR2 := γ * pR / rR
     let HL := cL2 / (γ - 1) + 1/2 * uL ^ 2; let HR := cR2 / (γ - 1) + 1/2 * uR ^ 2
     let eL := HL - pL / rL; let eR := HR - pR / rR
     let S := star γ sL sR rL uL pL rR uR pR
     let UL := consOf γ rL uL pL; let FL := fluxOf γ rL uL pL
     (sR * rL * uL - sL * rR * uR + sL * sR * (rR - rL)) / (sR - sL) = FL.1 + sL * (S.1 - UL.1) ∧
     (sR * (rL * uL ^ 2 + pL) - sL * (rR * uR ^ 2 + pR) + sL * sR * (rR * uR - rL * uL)) / (sR - sL)
        = FL.2.1 + sL * (S.2.1 - UL.2.1) ∧
     (sR * (rL * uL * HL) - sL * (rR * uR * HR) + sL * sR * (rR * eR - rL * eL)) / (sR - sL)
        = FL.2.2 + sL * (S.2.2 - UL.2.2)) := by
  have hg1 : γ - 1 ≠ 0 := by have : 0 < γ - 1 := by linarith
                             exact ne_of_gt this
  have hrL' : rL ≠ 0 := ne_of_gt hrL
  have hrR' : rR ≠ 0 := ne_of_gt hrR
  simp only [star, consOf, fluxOf, ePrim2cons, ePhys]
  refine ⟨?_, ?_, ?_⟩ <;> field_simp <;> ring

/-- the HLLE flux of the code is the HLL flux `F_L + sL (U* - U_L)` (and `F_R + sR (U* - U_R)`) with its own speeds -/
theorem hlle_is_hll (γ rL uL pL rR uR pR : ℝ) (hγ : 1 < γ) (hrL : 0 < rL) (hpL : 0 < pL) (hrR : 0 < rR) (hpR : 0 < pR) :
    (let cL2 := γ * pL / rL; let cR2 := γ * pR / rR
     let HL := cL2 / (γ - 1) + 1/2 * uL ^ 2; let HR := cR2 / (γ - 1) + 1/2 * uR ^ 2
     let roe := eRoe γ rL uL HL rR uR HR
     let sL := min 0 (min (roe.1 - roe.2) (uL - Real.sqrt cL2))
     let sR := max 0 (max (roe.1 + roe.2) (uR + Real.sqrt cR2))
     let S := star γ sL sR rL uL pL rR uR pR
     let UL := consOf γ rL uL pL; let FL := fluxOf γ rL uL pL
     let F := eHlle γ rL uL pL rR uR pR
     F.1 = FL.1 + sL * (S.1 - UL.1) ∧ F.2.1 = FL.2.1 + sL * (S.2.1 - UL.2.1) ∧ F.2.2 = FL.2.2 + sL * (S.2.2 - UL.2.2)) := by
  intro cL2 cR2 HL HR roe sL sR S UL FL F
  have hg1 : 0 < γ - 1 := by linarith
  have hcL2 : 0 < cL2 := by positivity
  have hcR2 : 0 < cR2 := by positivity
  have hHL : 0 < HL - 1/2 * uL ^ 2 := by
    have : HL - 1/2 * uL ^ 2 = cL2 / (γ - 1) := by simp only [HL]; ring
    rw [this]; positivity
  have hHR : 0 < HR - 1/2 * uR ^ 2 := by
    have : HR - 1/2 * uR ^ 2 = cR2 / (γ - 1) := by simp only [HR]; ring
    rw [this]; positivity
  have hc : 0 < roe.2 := roe_c_pos γ rL uL HL rR uR HR hγ hrL hrR hHL hHR
  have h1 : sL ≤ roe.1 - roe.2 := le_trans (min_le_right _ _) (min_le_left _ _)
  have h2 : roe.1 + roe.2 ≤ sR := le_trans (le_max_left _ _) (le_max_right _ _)
  have hne : sR - sL ≠ 0 := by
    have : 0 < sR - sL := by linarith
    exact ne_of_gt this
  exact hll_identity γ sL sR rL uL pL rR uR pR hγ hrL hrR hne

/-! ### shallow water: depth stays positive in the HLL intermediate state -/
theorem sw_star_depth_pos (g sL sR hL uL hR uR : ℝ) (hg : 0 < g) (hhL : 0 < hL) (hhR : 0 < hR)
    (hsL : sL ≤ uL - Real.sqrt (g * hL)) (hsR : uR + Real.sqrt (g * hR) ≤ sR) (hlt : sL < sR) :
    0 < (sR * hR - sL * hL - (hR * uR - hL * uL)) / (sR - sL) := by
  have hcL : 0 < Real.sqrt (g * hL) := Real.sqrt_pos.mpr (by positivity)
  have hcR : 0 < Real.sqrt (g * hR) := Real.sqrt_pos.mpr (by positivity)
  have h1 : 0 < sR - uR := by linarith
  have h2 : 0 < uL - sL := by linarith
  apply div_pos _ (by linarith)
  have : sR * hR - sL * hL - (hR * uR - hL * uL) = hR * (sR - uR) + hL * (uL - sL) := by ring
  rw [this]; positivity

end Flowdyn.C10
