/-
C08 (monitors) — a monitor with frequency `f` records exactly at the iterations whose cumulative number is a
multiple of `f`, with the iteration number, time and value of the trajectory state at that iteration.

`traj` is the ghost list of states after each full step (most recent first, initial state last), so the state
after `k` iterations of this call is `traj.reverse[k]`.
-/
import Flowdyn.Model.Driver
import Flowdyn.Props.C07
import Mathlib.Tactic.Ring
import Mathlib.Tactic.Linarith

namespace Flowdyn.C08
open Flowdyn Flowdyn.C07
variable {σ α V D : Type} [Field α] [LinearOrder α] [IsStrictOrderedRing α]

/-- what monitor `(f, val)` must have logged after `n` iterations, given the trajectory (oldest first) -/
def expectedLog (itstart : ℕ) (f : ℕ) (val : α → V → α) (states : List (α × V)) : List (ℕ × α × α) :=
  (states.zipIdx.filter (fun sk => (itstart + sk.2) % f = 0)).map (fun sk => (itstart + sk.2, sk.1.1, val sk.1.1 sk.1.2))

/-- loop invariant: every monitor log is the expected log of the trajectory so far -/
def MonInv (c : DrvCfg σ α V D) (st : DrvState σ α V) : Prop :=
  st.traj.length = st.nit + 1 ∧ st.monlog.length = c.monitors.length
  ∧ ∀ j (hj : j < c.monitors.length) (hj' : j < st.monlog.length),
      st.monlog[j] = expectedLog c.itstart (c.monitors[j]).1 (c.monitors[j]).2 st.traj.reverse

set_option linter.unusedSectionVars false

/-- appending one state appends at most one entry -/
theorem expectedLog_snoc (it f : ℕ) (val : α → V → α) (states : List (α × V)) (x : α × V) :
    expectedLog it f val (states ++ [x]) = expectedLog it f val states ++
      (if (it + states.length) % f = 0 then [(it + states.length, x.1, val x.1 x.2)] else []) := by
  unfold expectedLog
  rw [List.zipIdx_append, List.filter_append, List.map_append]
  congr 1
  simp only [List.zipIdx_singleton, Nat.zero_add]
  split_ifs with h <;> simp [h]

theorem parseMonitors_length (c : DrvCfg σ α V D) (st : DrvState σ α V)
    (h : st.monlog.length = c.monitors.length) :
    (c.parseMonitors st).monlog.length = c.monitors.length := by
  simp [DrvCfg.parseMonitors, h]

theorem parseMonitors_getElem (c : DrvCfg σ α V D) (st : DrvState σ α V) (j : ℕ)
    (hj : j < c.monitors.length) (hj2 : j < st.monlog.length) (hj' : j < (c.parseMonitors st).monlog.length) :
    (c.parseMonitors st).monlog[j] = st.monlog[j] ++
      (if (c.itstart + st.nit) % (c.monitors[j]).1 = 0
        then [(c.itstart + st.nit, st.time, (c.monitors[j]).2 st.time st.data)] else []) := by
  simp only [DrvCfg.parseMonitors, List.getElem_map, List.getElem_zip]
  split_ifs <;> simp

/-- the invariant depends only on `traj`, `nit`, `monlog` -/
theorem MonInv_congr (c : DrvCfg σ α V D) (st st' : DrvState σ α V) (h1 : st'.traj = st.traj)
    (h2 : st'.nit = st.nit) (h3 : st'.monlog = st.monlog) (h : MonInv c st) : MonInv c st' := by
  unfold MonInv at h ⊢
  simp only [h1, h2, h3]
  exact h

/-- a full step followed by `parseMonitors` preserves the invariant -/
theorem MonInv_step (c : DrvCfg σ α V D) (st : DrvState σ α V) (s' : σ) (t' : α) (q' : V) (h : MonInv c st) :
    MonInv c (c.parseMonitors { st with sol := s', time := t', data := q', nit := st.nit + 1,
                                        traj := (t', q') :: st.traj }) := by
  obtain ⟨hl, hm, hlog⟩ := h
  set st2 : DrvState σ α V := { st with sol := s', time := t', data := q', nit := st.nit + 1,
                                        traj := (t', q') :: st.traj } with hst2
  refine ⟨by simp [DrvCfg.parseMonitors, hst2, hl], parseMonitors_length c st2 hm, ?_⟩
  intro j hj hj'
  have hj2 : j < st2.monlog.length := by simp [hst2]; omega
  rw [parseMonitors_getElem c st2 j hj hj2 hj']
  show st.monlog[j] ++ _ = expectedLog _ _ _ ((t', q') :: st.traj).reverse
  rw [List.reverse_cons, expectedLog_snoc, hlog j hj (by omega), List.length_reverse, hl]

theorem initialSnaps_mon (c : DrvCfg σ α V D) (st : DrvState σ α V) (fuel : ℕ) :
    (c.initialSnaps st fuel).traj = st.traj ∧ (c.initialSnaps st fuel).nit = st.nit
    ∧ (c.initialSnaps st fuel).monlog = st.monlog := by
  induction fuel generalizing st with
  | zero => simp [DrvCfg.initialSnaps]
  | succ n ih =>
    rw [DrvCfg.initialSnaps]
    split
    · split_ifs
      · simp only [ih]; simp
      · simp
    · simp

/-- one iteration preserves the invariant -/
theorem iteration_monInv (c : DrvCfg σ α V D) (hkeep : ∀ s s', c.keep s s' = s) (st : DrvState σ α V)
    (hst : (st.time, st.data) ∈ st.traj.head?) (h : MonInv c st) : MonInv c (c.iteration st) := by
  have _ := hst  -- not needed for the invariant; kept in the statement
  obtain ⟨-, h2, h3, h4⟩ := sideSnaps_core c hkeep (c.minDt (c.calcDt st.time st.data)) st (c.tsave.length + 1)
  have h1 := MonInv_congr c st _ h3 h2 h4 h
  have key : ∀ (P : Prop) [Decidable P] (s : DrvState σ α V) (r : List (Snap α V)),
      MonInv c s → MonInv c (if P then { s with results := r } else s) := by
    intro P _ s r hs; split
    · exact MonInv_congr c s _ rfl rfl rfl hs
    · exact hs
  unfold DrvCfg.iteration
  dsimp only
  exact key _ _ _ (MonInv_step c _ _ _ _ h1)

theorem loop_monInv (c : DrvCfg σ α V D) (hkeep : ∀ s s', c.keep s s' = s) (fuel : ℕ) (st : DrvState σ α V)
    (hst : (st.time, st.data) ∈ st.traj.head?) (h : MonInv c st) : MonInv c (c.loop fuel st).1 := by
  induction fuel generalizing st with
  | zero => simpa [DrvCfg.loop] using h
  | succ n ih =>
    cases hce : c.checkEnd st with
    | true => rw [loop_stops_at_once c st n hce]; exact h
    | false =>
      rw [loop_continues c st n hce]
      refine ih _ ?_ (iteration_monInv c hkeep st hst h)
      rw [iteration_traj c hkeep st]; simp

/-- the whole run: after `run`, each monitor has logged exactly the multiples of its frequency, with the
iteration number, time and value of the trajectory state at that iteration -/
theorem run_monitors (c : DrvCfg σ α V D) (hkeep : ∀ s s', c.keep s s' = s) (fuel : ℕ) (s0 : σ) (t0 : α) (q0 : V) :
    MonInv c (c.run fuel s0 t0 q0).1 := by
  unfold DrvCfg.run
  dsimp only
  set st0 : DrvState σ α V := ⟨s0, t0, q0, 0, 0, [], c.monitors.map (fun _ => []), [(t0, q0)]⟩ with hst0
  set st2 : DrvState σ α V := { c.parseMonitors st0 with isave := skipPast t0 c.tsave 0 } with hst2
  obtain ⟨i1, i2, i3⟩ := initialSnaps_mon c st2 (c.tsave.length + 1)
  obtain ⟨j1, -⟩ := initialSnaps_core c st2 (c.tsave.length + 1)
  simp only [core, Prod.mk.injEq] at j1
  apply loop_monInv c hkeep
  · rw [i1, j1.2.1, j1.2.2]; simp [hst2, hst0, DrvCfg.parseMonitors]
  · refine MonInv_congr c _ _ i1 i2 i3 ?_
    refine MonInv_congr c (c.parseMonitors st0) st2 rfl rfl rfl ?_
    refine ⟨by simp [DrvCfg.parseMonitors, hst0], parseMonitors_length c st0 (by simp [hst0]), ?_⟩
    intro j hj hj'
    rw [parseMonitors_getElem c st0 j hj (by simpa [hst0] using hj) hj']
    simp only [hst0, DrvCfg.parseMonitors, expectedLog, List.getElem_map, List.reverse_singleton,
      List.zipIdx_singleton, List.nil_append, Nat.add_zero]
    split_ifs with h <;> simp [h]

end Flowdyn.C08
