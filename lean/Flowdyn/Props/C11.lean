/-
C11 — reconstructions are exact for linear data; the unlimited schemes match the κ stencil.
-/
import Flowdyn.Lemmas.Cyclic1D
import Flowdyn.Model.Models1D
import Flowdyn.Generated.Tables
import Mathlib.Tactic.Ring
import Mathlib.Tactic.Linarith
import Mathlib.Tactic.FieldSimp
import Mathlib.Tactic.NormNum

set_option linter.unusedSectionVars false

namespace Flowdyn.C11
open Flowdyn
variable {α : Type} [Field α] [LinearOrder α] [IsStrictOrderedRing α]

/-- a limiter usable in `muscl`: `lim 0 0 = 0` (all four provided limiters, C12) -/
def LimZero (s : Scheme α) : Prop := match s with | .muscl lim => lim 0 0 = 0 | _ => True
/-- `lim a a = a` exactly (minmod, superbee; the smooth limiters only up to the C12 bound) -/
def LimSelf (s : Scheme α) : Prop := match s with | .muscl lim => ∀ a, lim a a = a | _ => True

/-! ### constant data: every reconstruction returns the cell value (any mesh, periodic or not) -/
theorem grad_const (m : Mesh1D α) (per : Bool) (c : α) (f : ℕ) : grad1d m per (fun _ => c) f = 0 := by
  unfold grad1d
  split_ifs <;> simp
theorem recL_const (s : Scheme α) (hs : LimZero s) (m : Mesh1D α) (per : Bool) (c : α) (f : ℕ) (hf : f ≠ 0) :
    recL s m (fun _ => c) (grad1d m per (fun _ => c)) f = c := by
  have hg : grad1d m per (fun _ => c) = fun _ => 0 := funext (grad_const m per c)
  rw [hg]
  unfold recL
  rw [if_neg hf]
  cases s <;> simp [slopeL]
  exact Or.inl hs
theorem recR_const (s : Scheme α) (hs : LimZero s) (m : Mesh1D α) (per : Bool) (c : α) (f : ℕ) (hf : f ≠ m.n) :
    recR s m (fun _ => c) (grad1d m per (fun _ => c)) f = c := by
  have hg : grad1d m per (fun _ => c) = fun _ => 0 := funext (grad_const m per c)
  rw [hg]
  unfold recR
  rw [if_neg hf]
  cases s <;> simp [slopeR]
  exact Or.inl hs

/-! ### extrapol1 returns the adjacent cell values -/
theorem extrapol1_L (m : Mesh1D α) (d g : ℕ → α) (f : ℕ) (hf : f ≠ 0) : recL .extrapol1 m d g f = d (f - 1) := by
  simp [recL, slopeL, hf]
theorem extrapol1_R (m : Mesh1D α) (d g : ℕ → α) (f : ℕ) (hf : f ≠ m.n) : recR .extrapol1 m d g f = d f := by
  simp [recR, slopeR, hf]

/-! ### linear data `d i = A + B * xc i` on any mesh with distinct consecutive centres:
interior gradients equal `B`, and every scheme except the first-order `extrapol1` (zero slope, returns
the cell value, see the counterexample below) returns `A + B * xf f` at faces whose stencil is interior -/
theorem grad_linear (m : Mesh1D α) (per : Bool) (A B : α) (f : ℕ) (h0 : f ≠ 0) (hn : f ≠ m.n)
    (hxc : m.xc f ≠ m.xc (f - 1)) :
    grad1d m per (fun i => A + B * m.xc i) f = B := by
  unfold grad1d
  rw [if_neg (by tauto)]
  have : m.xc f - m.xc (f - 1) ≠ 0 := sub_ne_zero.mpr hxc
  field_simp
  ring

/-- `extrapol1` is *not* exact on linear data (hence the hypothesis `s ≠ extrapol1` below): faces
`0,1,2,3`, `d i = xc i`, face `2`: the left state is `xc 1 = 3/2`, not `xf 2 = 2`. -/
example :
    recL (α := ℚ) .extrapol1 (facesMesh 3 (fun i => (i : ℚ)) 3)
      (fun i => 0 + 1 * (facesMesh 3 (fun i => (i : ℚ)) 3).xc i)
      (grad1d (facesMesh 3 (fun i => (i : ℚ)) 3) true
        (fun i => 0 + 1 * (facesMesh 3 (fun i => (i : ℚ)) 3).xc i)) 2
    ≠ 0 + 1 * (facesMesh 3 (fun i => (i : ℚ)) 3).xf 2 := by
  simp [recL, slopeL, facesMesh, Mesh1D.xc]
  norm_num

theorem recL_linear (s : Scheme α) (hs1 : s ≠ Scheme.extrapol1) (hs : LimSelf s) (m : Mesh1D α) (per : Bool) (A B : α) (f : ℕ)
    (h2 : 2 ≤ f) (hn : f + 1 ≤ m.n) (hxc : ∀ j, 1 ≤ j → j < m.n → m.xc j ≠ m.xc (j - 1)) :
    recL s m (fun i => A + B * m.xc i) (grad1d m per (fun i => A + B * m.xc i)) f = A + B * m.xf f := by
  have g1 : grad1d m per (fun i => A + B * m.xc i) f = B :=
    grad_linear m per A B f (by omega) (by omega) (hxc f (by omega) (by omega))
  have g2 : grad1d m per (fun i => A + B * m.xc i) (f - 1) = B :=
    grad_linear m per A B (f - 1) (by omega) (by omega) (hxc (f - 1) (by omega) (by omega))
  unfold recL
  rw [if_neg (by omega)]
  cases s <;> simp only [slopeL, g1, g2]
  · exact absurd rfl hs1
  · ring
  · ring
  · rw [hs B]; ring
theorem recR_linear (s : Scheme α) (hs1 : s ≠ Scheme.extrapol1) (hs : LimSelf s) (m : Mesh1D α) (per : Bool) (A B : α) (f : ℕ)
    (h1 : 1 ≤ f) (hn : f + 2 ≤ m.n) (hxc : ∀ j, 1 ≤ j → j < m.n → m.xc j ≠ m.xc (j - 1)) :
    recR s m (fun i => A + B * m.xc i) (grad1d m per (fun i => A + B * m.xc i)) f = A + B * m.xf f := by
  have g1 : grad1d m per (fun i => A + B * m.xc i) f = B :=
    grad_linear m per A B f (by omega) (by omega) (hxc f (by omega) (by omega))
  have g2 : grad1d m per (fun i => A + B * m.xc i) (f + 1) = B :=
    grad_linear m per A B (f + 1) (by omega) (by omega) (hxc (f + 1) (by omega) (by omega))
  unfold recR
  rw [if_neg (by omega)]
  cases s <;> simp only [slopeR, g1, g2]
  · exact absurd rfl hs1
  · ring
  · ring
  · rw [hs B]; ring
/-- minmod and superbee satisfy `LimSelf`, all four limiters `LimZero` (with the generated literals) -/
theorem limself_minmod : LimSelf (Scheme.muscl (minmod (α := α))) := by
  intro a
  unfold minmod
  split_ifs with h1 h2
  · have : a * a = 0 := le_antisymm h1 (mul_self_nonneg a)
    exact (mul_self_eq_zero.mp this).symm
  · simp
  · simp
theorem limself_superbee : LimSelf (Scheme.muscl (superbee (α := α))) := by
  intro a
  unfold superbee
  split_ifs with h1 h2
  · have : a * a = 0 := le_antisymm h1 (mul_self_nonneg a)
    exact (mul_self_eq_zero.mp this).symm
  · simp only [min_self, max_self]
    apply min_eq_right; linarith
  · simp only [min_self, max_self]
    apply max_eq_right
    have : a ≤ 0 := not_lt.mp h2
    linarith
theorem limzero_all (pmin eps : α) (hp : 0 ≤ pmin) :
    LimZero (Scheme.muscl (minmod (α := α))) ∧ LimZero (Scheme.muscl (superbee (α := α)))
    ∧ LimZero (Scheme.muscl (vanalbada pmin eps)) ∧ LimZero (Scheme.muscl (vanleer pmin eps)) := by
  refine ⟨?_, ?_, ?_, ?_⟩
  · simp [LimZero, minmod]
  · simp [LimZero, superbee]
  · simp [LimZero, vanalbada, hp]
  · simp [LimZero, vanleer, hp]

/-! ### κ stencil: linear convection, uniform periodic mesh, **all** data, all `n ≥ 1`, both signs -/

/-- κ-scheme left/right face values at face `i+½` in cyclic indexing (`u` read modulo `n`) -/
def kappaL (κ : α) (n : ℕ) (u : ℕ → α) (i : ℕ) : α :=
  cyc n u i + (1 - κ) / 4 * (cyc n u i - cyc n u (i + n - 1)) + (1 + κ) / 4 * (cyc n u (i + 1) - cyc n u i)
def kappaR (κ : α) (n : ℕ) (u : ℕ → α) (i : ℕ) : α :=
  cyc n u (i + 1) - (1 - κ) / 4 * (cyc n u (i + 2) - cyc n u (i + 1)) - (1 + κ) / 4 * (cyc n u (i + 1) - cyc n u i)

/-- the cyclic `extrapolk κ` face states are the κ-scheme face values -/
theorem recLCyc_kappa (κ : α) (n : ℕ) (hn : 0 < n) (h : α) (hh : h ≠ 0) (u : ℕ → α) (i : ℕ) :
    recLCyc (.extrapolk κ) n h u (i + 1) = kappaL κ n u i := by
  have e0 : cyc n u (i + 1 + n - 1) = cyc n u i :=
    cyc_mod_congr u (by rw [show i + 1 + n - 1 = i + n by omega, Nat.add_mod_right])
  have e1 : gradCyc n h u ((i + 1 + n - 1) % n) = (cyc n u i - cyc n u (i + n - 1)) / h := by
    rw [gradCyc_mod_congr hn h u (b := i)
      (by rw [Nat.mod_mod, show i + 1 + n - 1 = i + n by omega, Nat.add_mod_right])]
    rfl
  have e2 : gradCyc n h u ((i + 1 + n) % n) = (cyc n u (i + 1) - cyc n u i) / h := by
    rw [gradCyc_mod_congr hn h u (b := i + 1) (by rw [Nat.mod_mod, Nat.add_mod_right])]
    unfold gradCyc
    rw [e0]
  unfold recLCyc kappaL
  simp only [slopeL]
  rw [e0, e1, e2]
  field_simp
  ring

theorem recRCyc_kappa (κ : α) (n : ℕ) (hn : 0 < n) (h : α) (hh : h ≠ 0) (u : ℕ → α) (i : ℕ) :
    recRCyc (.extrapolk κ) n h u (i + 1) = kappaR κ n u i := by
  have e0 : cyc n u (i + 1 + n - 1) = cyc n u i :=
    cyc_mod_congr u (by rw [show i + 1 + n - 1 = i + n by omega, Nat.add_mod_right])
  have e0' : cyc n u (i + 2 + n - 1) = cyc n u (i + 1) :=
    cyc_mod_congr u (by rw [show i + 2 + n - 1 = i + 1 + n by omega, Nat.add_mod_right])
  have e1 : gradCyc n h u ((i + 1 + n + 1) % n) = (cyc n u (i + 2) - cyc n u (i + 1)) / h := by
    rw [gradCyc_mod_congr hn h u (b := i + 2)
      (by rw [Nat.mod_mod, show i + 1 + n + 1 = i + 2 + n by omega, Nat.add_mod_right])]
    unfold gradCyc
    rw [e0']
  have e2 : gradCyc n h u ((i + 1 + n) % n) = (cyc n u (i + 1) - cyc n u i) / h := by
    rw [gradCyc_mod_congr hn h u (b := i + 1) (by rw [Nat.mod_mod, Nat.add_mod_right])]
    unfold gradCyc
    rw [e0]
  unfold recRCyc kappaR
  simp only [slopeR]
  rw [e1, e2]
  field_simp
  ring

theorem convFlux_pos (a : α) (ha : 0 < a) (l r : α) : convFlux a l r = a * l := by
  unfold convFlux; rw [abs_of_pos ha]; ring
theorem convFlux_neg (a : α) (ha : a < 0) (l r : α) : convFlux a l r = a * r := by
  unfold convFlux; rw [abs_of_neg ha]; ring

/-- the periodic convection operator with the κ reconstruction is the circulant κ stencil -/
theorem conv_stencil (κ a : α) (n : ℕ) (hn : 0 < n) (L x0 : α) (hL : 0 < L) (q : ℕ → ℕ → α) (i : ℕ) (hi : i < n) :
    (Disc1D.rhs { mesh := uniMesh n L x0, scheme := Scheme.extrapolk κ, bc := BC1D.periodic,
                  c2p := convC2P, flux := convFluxV a, src := fun _ => none } q 0 i)
      = -(convFlux a (kappaL κ n (q 0) i) (kappaR κ n (q 0) i)
          - convFlux a (kappaL κ n (q 0) (i + n - 1)) (kappaR κ n (q 0) (i + n - 1))) / (L / n) := by
  have hh : L / (n : α) ≠ 0 := div_ne_zero (ne_of_gt hL) (Nat.cast_ne_zero.mpr (by omega))
  have hpd : (fun c => convC2P (fun l => q l c) 0) = q 0 := by
    funext c; simp only [convC2P, vec1, one_mul]
  rw [rhs_periodic_uniform_eq_cyc n hn L x0 hL _ _ _ q 0 i hi]
  unfold rhsCyc
  simp only [convFluxV, vec1, hpd]
  have hLi : recLCyc (Scheme.extrapolk κ) n (L / n) (q 0) i
      = recLCyc (Scheme.extrapolk κ) n (L / n) (q 0) (i + n - 1 + 1) :=
    recLCyc_mod_congr _ hn _ _ (by rw [show i + n - 1 + 1 = i + n by omega, Nat.add_mod_right])
  have hRi : recRCyc (Scheme.extrapolk κ) n (L / n) (q 0) i
      = recRCyc (Scheme.extrapolk κ) n (L / n) (q 0) (i + n - 1 + 1) :=
    recRCyc_mod_congr _ _ _ (by rw [show i + n - 1 + 1 = i + n by omega, Nat.add_mod_right])
  rw [hLi, hRi, recLCyc_kappa κ n hn _ hh, recRCyc_kappa κ n hn _ hh, recLCyc_kappa κ n hn _ hh,
    recRCyc_kappa κ n hn _ hh]

/-- for `a > 0` this is `-a/h (L_{i+½} - L_{i-½})` -/
theorem conv_stencil_pos (κ a : α) (ha : 0 < a) (n : ℕ) (hn : 0 < n) (L x0 : α) (hL : 0 < L)
    (q : ℕ → ℕ → α) (i : ℕ) (hi : i < n) :
    (Disc1D.rhs { mesh := uniMesh n L x0, scheme := Scheme.extrapolk κ, bc := BC1D.periodic,
                  c2p := convC2P, flux := convFluxV a, src := fun _ => none } q 0 i)
      = -a / (L / n) * (kappaL κ n (q 0) i - kappaL κ n (q 0) (i + n - 1)) := by
  rw [conv_stencil κ a n hn L x0 hL q i hi, convFlux_pos a ha, convFlux_pos a ha]; ring
theorem conv_stencil_neg (κ a : α) (ha : a < 0) (n : ℕ) (hn : 0 < n) (L x0 : α) (hL : 0 < L)
    (q : ℕ → ℕ → α) (i : ℕ) (hi : i < n) :
    (Disc1D.rhs { mesh := uniMesh n L x0, scheme := Scheme.extrapolk κ, bc := BC1D.periodic,
                  c2p := convC2P, flux := convFluxV a, src := fun _ => none } q 0 i)
      = -a / (L / n) * (kappaR κ n (q 0) i - kappaR κ n (q 0) (i + n - 1)) := by
  rw [conv_stencil κ a n hn L x0 hL q i hi, convFlux_neg a ha, convFlux_neg a ha]; ring

/-- `extrapol2` is the κ scheme with κ = -1 (same face values for every gradient array) -/
theorem extrapol2_is_kappa (m : Mesh1D α) (d g : ℕ → α) (f : ℕ) :
    recL .extrapol2 m d g f = recL (.extrapolk (-1)) m d g f
    ∧ recR .extrapol2 m d g f = recR (.extrapolk (-1)) m d g f := by
  constructor
  · unfold recL; split_ifs
    · rfl
    · simp only [slopeL]; ring
  · unfold recR; split_ifs
    · rfl
    · simp only [slopeR]; ring

/-- the named classes carry κ = 1, 0, 1/2, 1/3 (generated from the source) -/
theorem named_kappas : Gen.kappa_centered = 1 ∧ Gen.kappa_fromm = 0 ∧ Gen.kappa_quick = 1/2
    ∧ Gen.kappa_extrapol3 = 1/3 := by
  refine ⟨rfl, rfl, rfl, rfl⟩

/-- third-order accuracy of κ = 1/3 (C04): on cell averages of `x²` over a uniform mesh of size `h`
the κ face value at `x_{i+½} = (i+1) h` has defect exactly `(κ - 1/3) h²/2`… stated for the averages
`ū_j = h² (j² + j + 1/3)` of `x²` on `[j h, (j+1) h]` -/
theorem kappa_quadratic_defect (κ h : α) (i : ℤ) :
    (let ubar : ℤ → α := fun j => h ^ 2 * ((j : α) ^ 2 + (j : α) + 1/3)
     ubar i + (1 - κ) / 4 * (ubar i - ubar (i - 1)) + (1 + κ) / 4 * (ubar (i + 1) - ubar i)
       - (((i : α) + 1) * h) ^ 2) = (κ - 1/3) * h ^ 2 / 2 := by
  dsimp only
  push_cast
  ring

end Flowdyn.C11
