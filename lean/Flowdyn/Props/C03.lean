/-
C03 — uniform and compatible steady states are fixed points (1D pipeline and integrators).

A uniform state gives zero gradients, every reconstruction returns the cell value, all faces receive
the same pair of states — also the end faces when the boundary kernels return the state itself
(periodic, `dirichlet` holding the state, Euler inlets/outlets with the state's own parameters: C16
`…_compatible`) — so every face flux is the same number and the residual vanishes, for **any**
pointwise flux.  Every explicit integrator maps a zero of the space operator to itself.
-/
import Flowdyn.Model.FVM1D
import Flowdyn.Model.Models1D
import Flowdyn.Model.Integrators
import Flowdyn.Props.C11
import Mathlib.Tactic.Ring
import Mathlib.Tactic.Linarith
import Mathlib.Tactic.FieldSimp
import Mathlib.Tactic.Module

namespace Flowdyn.C03
open Flowdyn
variable {α : Type} [Field α] [LinearOrder α] [IsStrictOrderedRing α] {ι : Type}
set_option linter.unusedSectionVars false

/-- the boundary treatment leaves the uniform primitive state `W` unchanged -/
def BCFixes (bc : BC1D α ι) (W : ι → α) : Prop :=
  match bc with
  | .periodic => True
  | .open bcL bcR => bcL W = W ∧ bcR W = W

theorem pdata_const (D : Disc1D α ι) (Q W : ι → α) (hW : D.c2p Q = W) (k : ι) :
    D.pdata (fun j _ => Q j) k = fun _ => W k := by
  funext i
  simp only [Disc1D.pdata]
  rw [← hW]

theorem pL0_const (D : Disc1D α ι) (hs : C11.LimZero D.scheme) (Q W : ι → α) (hW : D.c2p Q = W) (k : ι)
    (f : ℕ) (hf : f ≠ 0) : D.pL0 (fun j _ => Q j) k f = W k := by
  simp only [Disc1D.pL0, Disc1D.grad, pdata_const D Q W hW]
  exact C11.recL_const _ hs _ _ _ f hf

theorem pR0_const (D : Disc1D α ι) (hs : C11.LimZero D.scheme) (Q W : ι → α) (hW : D.c2p Q = W) (k : ι)
    (f : ℕ) (hf : f ≠ D.mesh.n) : D.pR0 (fun j _ => Q j) k f = W k := by
  simp only [Disc1D.pR0, Disc1D.grad, pdata_const D Q W hW]
  exact C11.recR_const _ hs _ _ _ f hf

/-- all face states equal `W` for uniform data -/
theorem face_states_const (D : Disc1D α ι) (hs : C11.LimZero D.scheme) (hn : D.mesh.n ≠ 0) (Q W : ι → α)
    (hW : D.c2p Q = W) (hbc : BCFixes D.bc W) (f : ℕ) (hf : f ≤ D.mesh.n) (k : ι) :
    D.pL (fun j _ => Q j) k f = W k ∧ D.pR (fun j _ => Q j) k f = W k := by
  have hn' : (0 : ℕ) ≠ D.mesh.n := fun h => hn h.symm
  have hL0 := pL0_const D hs Q W hW
  have hR0 := pR0_const D hs Q W hW
  have hLW : (fun j => D.pL0 (fun j _ => Q j) j D.mesh.n) = W := funext fun j => hL0 j _ hn
  have hRW : (fun j => D.pR0 (fun j _ => Q j) j 0) = W := funext fun j => hR0 j _ hn'
  simp only [Disc1D.pL, Disc1D.pR, bcFaceL, bcFaceR]
  constructor
  · by_cases hf0 : f = 0
    · rw [if_pos hf0]
      cases hbcD : D.bc with
      | periodic => exact hL0 k _ hn
      | «open» bcL bcR =>
        rw [hbcD] at hbc
        simp only [hRW]
        rw [hbc.1]
    · rw [if_neg hf0]; exact hL0 k f hf0
  · by_cases hfn : f = D.mesh.n
    · rw [if_pos hfn]
      cases hbcD : D.bc with
      | periodic => exact hR0 k _ hn'
      | «open» bcL bcR =>
        rw [hbcD] at hbc
        simp only [hLW]
        rw [hbc.2]
    · rw [if_neg hfn]; exact hR0 k f hfn

/-- the residual of a uniform state vanishes: any mesh, any reconstruction, any pointwise flux -/
theorem rhs_const_zero (D : Disc1D α ι) (hs : C11.LimZero D.scheme) (hn : D.mesh.n ≠ 0) (Q W : ι → α)
    (hW : D.c2p Q = W) (hbc : BCFixes D.bc W) (hsrc : ∀ k, D.src k = none) (k : ι) (i : ℕ) (hi : i < D.mesh.n) :
    D.rhs (fun j _ => Q j) k i = 0 := by
  have hF : ∀ f, f ≤ D.mesh.n → D.faceFluxes (fun j _ => Q j) k f = D.flux W W k := by
    intro f hf
    have hL : (fun j => D.pL (fun j _ => Q j) j f) = W :=
      funext fun j => (face_states_const D hs hn Q W hW hbc f hf j).1
    have hR : (fun j => D.pR (fun j _ => Q j) j f) = W :=
      funext fun j => (face_states_const D hs hn Q W hW hbc f hf j).2
    simp only [Disc1D.faceFluxes, faceFlux, hL, hR]
  simp only [Disc1D.rhs, addSource, hsrc k, Disc1D.resNoSrc, calcRes]
  rw [hF i hi.le, hF (i + 1) hi, sub_self, neg_zero, zero_div]

/-- `dirichlet` holding the state fixes it -/
theorem dirichlet_fixes (W : ℕ → α) : BCFixes (BC1D.open (bcDirichlet W) (bcDirichlet W)) W :=
  ⟨rfl, rfl⟩

/-- nozzle at rest: the three geometric sources vanish when the momentum is zero, for any section law -/
theorem nozzle_rest_sources (γ g r E : α) :
    nozSrcMass g r 0 E = 0 ∧ nozSrcMom g r 0 E = 0 ∧ nozSrcEnergy γ g r 0 E = 0 := by
  simp [nozSrcMass, nozSrcMom, nozSrcEnergy]

/-! ### integrators: a zero of the space operator is a fixed point (scalar or local time step) -/
section integrators
variable {β : Type} [Field β] {V : Type} [AddCommGroup V] [Module β V]

theorem list_sum_zero (l : List V) (h : ∀ x ∈ l, x = 0) : l.sum = 0 := by
  induction l with
  | nil => simp
  | cons a l ih =>
    rw [List.sum_cons, h a (List.mem_cons_self ..), ih (fun x hx => h x (List.mem_cons_of_mem _ hx)),
      add_zero]

theorem rkAggregate_zero (row : List β) (prhs : List V) (hp : ∀ x ∈ prhs, x = 0) :
    rkAggregate row prhs (0 : V) = 0 := by
  unfold rkAggregate
  rw [smul_zero, zero_add]
  apply list_sum_zero
  intro x hx
  obtain ⟨ck, hck, rfl⟩ := List.mem_map.mp hx
  rw [hp ck.2 (List.of_mem_zip hck).2, smul_zero]

theorem rk_fold_fixed (R : β → V → V) (dtm : β) (sc : V → V) (hsc : sc 0 = 0) (t0 : β) (q : V)
    (hR : ∀ t, R t q = 0) (tbl : List (List β)) (st : RkState β V) (h1 : st.data = q)
    (h2 : ∀ r ∈ st.prhs, r = 0) :
    (tbl.foldl (rkStage R dtm sc t0 q) st).data = q := by
  induction tbl generalizing st with
  | nil => exact h1
  | cons row tbl ih =>
    rw [List.foldl_cons]
    apply ih
    · simp only [rkStage]
      rw [h1, hR, rkAggregate_zero row st.prhs h2, hsc, add_zero]
    · intro r hr
      simp only [rkStage] at hr
      rcases List.mem_append.mp hr with h | h
      · exact h2 r h
      · rw [List.mem_singleton.mp h, h1]; exact hR _

theorem ls_fold_fixed (tc : β → β) (R : β → V → V) (dtm : β) (sc : V → V) (hsc : sc 0 = 0) (t0 : β) (q : V)
    (hR : ∀ t, R t q = 0) (bs : List β) (st : StepOut β V) (h1 : st.data = q) :
    (bs.foldl (lsStage tc R dtm sc t0 q) st).data = q := by
  induction bs generalizing st with
  | nil => exact h1
  | cons b bs ih =>
    rw [List.foldl_cons]
    apply ih
    simp only [lsStage]
    rw [h1, hR, hsc, smul_zero, add_zero]

theorem explicit_fixed (R : β → V → V) (dtm : β) (sc : V → V) (hsc : sc 0 = 0) (t : β) (q : V)
    (hR : ∀ t, R t q = 0) : (explicitStepG R dtm sc t q).data = q := by
  simp only [explicitStepG]
  rw [hR, hsc, add_zero]
theorem rk2_fixed (R : β → V → V) (dtm : β) (sc sch : V → V) (hsc : sc 0 = 0) (hsch : sch 0 = 0) (t : β) (q : V)
    (hR : ∀ t, R t q = 0) : (rk2StepG R dtm sc sch t q).data = q := by
  simp only [rk2StepG]
  rw [hR t, hsch, add_zero, hR, hsc, add_zero]
theorem rk_fixed (tbl : List (List β)) (R : β → V → V) (dtm : β) (sc : V → V) (hsc : sc 0 = 0) (t : β) (q : V)
    (hR : ∀ t, R t q = 0) : (rkStepG tbl R dtm sc t q).data = q := by
  simp only [rkStepG]
  exact rk_fold_fixed R dtm sc hsc t q hR tbl _ rfl (by intro r hr; simp at hr)
theorem ls_fixed (tc : β → β) (bs : List β) (R : β → V → V) (dtm : β) (sc : V → V) (hsc : sc 0 = 0) (t : β) (q : V)
    (hR : ∀ t, R t q = 0) : (lsStepG tc bs R dtm sc t q).data = q := by
  simp only [lsStepG]
  exact ls_fold_fixed tc R dtm sc hsc t q hR bs _ rfl
end integrators

end Flowdyn.C03
