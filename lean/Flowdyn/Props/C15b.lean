/-
C15 (part B) — the 2D Cartesian operator commutes with the reflections `x ↦ lx - x` and `y ↦ ly - y`.

Reflection in x: the grid is reversed along x and every component `k` is multiplied by a sign `s k`
(`s k * s k = 1`; for Euler 2D `s = (1, -1, 1, 1)`: the x-velocity / x-momentum changes sign).  The reflected
problem has the same mesh and scheme, the left/right boundary kernels exchanged and conjugated by the sign map,
the bottom/top kernels conjugated by the sign map.  Kernel laws needed (hypotheses, proved for the Euler 2D
kernels below from the C02b mirror laws):
  * `c2p` commutes with the sign map,
  * x-faces: `flux 1 0 (s⊙R) (s⊙L) k = - s k * flux 1 0 L R k`   (mirror law: states swapped),
  * y-faces: `flux 0 1 (s⊙L) (s⊙R) k =   s k * flux 0 1 L R k`   (tangential law: states not swapped).

The proof is done once on the line pipeline of C15 (`lgrad`, `lL0`, `lR0`, `lL`, `lR`, `lFlux`): a *reversed and
scaled* line (`l…_refl`) for the sweep along the reflected direction, a *scaled* line (`l…_smul`) for the other sweep.
The theorems `rhs_reflect_x_loc / _y_loc` need the flux laws only at the face states of the four faces of the
mirrored cell (HLLE obeys its mirror law only for positive densities); `rhs_reflect_x / _y` take the laws for all
states.
-/
import Flowdyn.Props.C15
import Flowdyn.Props.C02b
import Flowdyn.Model.Models2D
import Mathlib.Tactic.IntervalCases

namespace Flowdyn.C15
open Flowdyn
variable {α : Type} [Field α] {ι : Type}

/-! ### sign maps, reflected boundary pairs, reflected problems -/

/-- componentwise multiplication by the sign vector `s` -/
def sgn (s : ι → α) (w : ι → α) : ι → α := fun l => s l * w l

/-- exchange the two sides of a boundary pair and conjugate the kernels by `T` -/
def reflPair (T : (ι → α) → (ι → α)) : BCPair α ι → BCPair α ι
  | .periodic => .periodic
  | .open lo hi => .open (fun w => T (hi (T w))) (fun w => T (lo (T w)))

omit [Field α] in
theorem reflPair_isPer (T : (ι → α) → (ι → α)) (bc : BCPair α ι) : (reflPair T bc).isPer = bc.isPer := by
  cases bc <;> rfl

/-- the problem reflected in x: left/right kernels exchanged and conjugated, bottom/top kernels conjugated -/
def reflectDiscX (s : ι → α) (D : Disc2D α ι) : Disc2D α ι :=
  { mesh := D.mesh, scheme := D.scheme, bcx := reflPair (sgn s) D.bcx, bcy := conjPair (sgn s) D.bcy,
    c2p := D.c2p, flux := D.flux }

/-- the problem reflected in y -/
def reflectDiscY (s : ι → α) (D : Disc2D α ι) : Disc2D α ι :=
  { mesh := D.mesh, scheme := D.scheme, bcx := conjPair (sgn s) D.bcx, bcy := reflPair (sgn s) D.bcy,
    c2p := D.c2p, flux := D.flux }

/-- data reflected in x on a grid with `n` columns -/
def reflX (s : ι → α) (n : ℕ) (q : ι → ℕ → ℕ → α) : ι → ℕ → ℕ → α := fun k i j => s k * q k (n - 1 - i) j
/-- data reflected in y on a grid with `n` rows -/
def reflY (s : ι → α) (n : ℕ) (q : ι → ℕ → ℕ → α) : ι → ℕ → ℕ → α := fun k i j => s k * q k i (n - 1 - j)

/-! ### the line pipeline on a reversed and scaled line -/

theorem lgrad_refl {n : ℕ} (hn : 0 < n) (per : Bool) (σ : α) (d : ℕ → α) {a : ℕ} (ha : a ≤ n) :
    lgrad n per (fun c => σ * d (n - 1 - c)) a = -(σ * lgrad n per d (n - a)) := by
  unfold lgrad
  by_cases h0 : a = 0 ∨ a = n
  · have h0' : n - a = 0 ∨ n - a = n := by omega
    rw [if_pos h0, if_pos h0']
    cases per
    · simp
    · rw [if_pos rfl, if_pos rfl]
      dsimp only
      rw [Nat.sub_zero, Nat.sub_self]; ring
  · have h0' : ¬ (n - a = 0 ∨ n - a = n) := by omega
    rw [if_neg h0, if_neg h0']
    dsimp only
    rw [show n - 1 - a = n - a - 1 by omega, show n - 1 - (a - 1) = n - a by omega]
    ring

theorem lL0_refl {n : ℕ} (hn : 0 < n) (per : Bool) (km kp σ : α) (d : ℕ → α) {a : ℕ} (h0 : a ≠ 0) (ha : a ≤ n) :
    lL0 n per km kp (fun c => σ * d (n - 1 - c)) a = σ * lR0 n per km kp d (n - a) := by
  unfold lL0 lR0
  rw [if_neg h0, if_neg (by omega : n - a ≠ n), lgrad_refl hn per σ d (by omega : a - 1 ≤ n),
    lgrad_refl hn per σ d ha]
  dsimp only
  rw [show n - 1 - (a - 1) = n - a by omega, show n - (a - 1) = n - a + 1 by omega]
  ring

theorem lR0_refl {n : ℕ} (hn : 0 < n) (per : Bool) (km kp σ : α) (d : ℕ → α) {a : ℕ} (ha : a < n) :
    lR0 n per km kp (fun c => σ * d (n - 1 - c)) a = σ * lL0 n per km kp d (n - a) := by
  unfold lL0 lR0
  rw [if_neg (by omega : a ≠ n), if_neg (by omega : n - a ≠ 0), lgrad_refl hn per σ d (by omega : a + 1 ≤ n),
    lgrad_refl hn per σ d (le_of_lt ha)]
  dsimp only
  rw [show n - 1 - a = n - a - 1 by omega, show n - (a + 1) = n - a - 1 by omega]
  ring

theorem lL_refl (s : ι → α) (hs : ∀ l, s l * s l = 1) {n : ℕ} (hn : 0 < n) (bc : BCPair α ι) (km kp : α)
    (d : ι → ℕ → α) (k : ι) {a : ℕ} (ha : a ≤ n) :
    lL n (reflPair (sgn s) bc) km kp (fun l c => s l * d l (n - 1 - c)) k a = s k * lR n bc km kp d k (n - a) := by
  unfold lL lR
  rw [reflPair_isPer]
  by_cases h0 : a = 0
  · have h0' : n - a = n := by omega
    rw [if_pos h0, if_pos h0']
    rcases bc with _ | ⟨lo, hi⟩
    · show lL0 n _ km kp (fun c => s k * d k (n - 1 - c)) n = s k * lR0 n _ km kp (d k) 0
      rw [lL0_refl hn _ km kp (s k) (d k) (by omega) le_rfl, Nat.sub_self]
    · show s k * hi (fun l => s l * lR0 n _ km kp (fun c => s l * d l (n - 1 - c)) 0) k
          = s k * hi (fun l => lL0 n _ km kp (d l) n) k
      have e : ∀ l, s l * lR0 n (BCPair.open lo hi).isPer km kp (fun c => s l * d l (n - 1 - c)) 0
          = lL0 n (BCPair.open lo hi).isPer km kp (d l) n := by
        intro l
        rw [lR0_refl hn _ km kp (s l) (d l) hn, Nat.sub_zero, ← mul_assoc, hs, one_mul]
      simp only [e]
  · have h0' : n - a ≠ n := by omega
    rw [if_neg h0, if_neg h0']
    exact lL0_refl hn _ km kp (s k) (d k) h0 ha

theorem lR_refl (s : ι → α) (hs : ∀ l, s l * s l = 1) {n : ℕ} (hn : 0 < n) (bc : BCPair α ι) (km kp : α)
    (d : ι → ℕ → α) (k : ι) {a : ℕ} (ha : a ≤ n) :
    lR n (reflPair (sgn s) bc) km kp (fun l c => s l * d l (n - 1 - c)) k a = s k * lL n bc km kp d k (n - a) := by
  unfold lL lR
  rw [reflPair_isPer]
  by_cases h0 : a = n
  · have h0' : n - a = 0 := by omega
    rw [if_pos h0, if_pos h0']
    rcases bc with _ | ⟨lo, hi⟩
    · show lR0 n _ km kp (fun c => s k * d k (n - 1 - c)) 0 = s k * lL0 n _ km kp (d k) n
      rw [lR0_refl hn _ km kp (s k) (d k) hn, Nat.sub_zero]
    · show s k * lo (fun l => s l * lL0 n _ km kp (fun c => s l * d l (n - 1 - c)) n) k
          = s k * lo (fun l => lR0 n _ km kp (d l) 0) k
      have e : ∀ l, s l * lL0 n (BCPair.open lo hi).isPer km kp (fun c => s l * d l (n - 1 - c)) n
          = lR0 n (BCPair.open lo hi).isPer km kp (d l) 0 := by
        intro l
        rw [lL0_refl hn _ km kp (s l) (d l) (by omega) le_rfl, Nat.sub_self, ← mul_assoc, hs, one_mul]
      simp only [e]
  · have h0' : n - a ≠ 0 := by omega
    rw [if_neg h0, if_neg h0']
    exact lR0_refl hn _ km kp (s k) (d k) (lt_of_le_of_ne ha h0)

/-- flux of the reversed line at face `a` from the flux of the original line at face `n - a`; the mirror law of the
kernel is needed only at the two states of that face -/
theorem lFlux_refl (s : ι → α) (hs : ∀ l, s l * s l = 1) {n : ℕ} (hn : 0 < n) (bc : BCPair α ι) (km kp : α)
    (Φ : (ι → α) → (ι → α) → (ι → α)) (d : ι → ℕ → α) (k : ι) {a : ℕ} (ha : a ≤ n)
    (hΦ : Φ (fun l => s l * lR n bc km kp d l (n - a)) (fun l => s l * lL n bc km kp d l (n - a)) k
      = -s k * Φ (fun l => lL n bc km kp d l (n - a)) (fun l => lR n bc km kp d l (n - a)) k) :
    lFlux n (reflPair (sgn s) bc) km kp Φ (fun l c => s l * d l (n - 1 - c)) k a
      = -s k * lFlux n bc km kp Φ d k (n - a) := by
  unfold lFlux
  have h1 : ∀ l, lL n (reflPair (sgn s) bc) km kp (fun l c => s l * d l (n - 1 - c)) l a
      = s l * lR n bc km kp d l (n - a) := fun l => lL_refl s hs hn bc km kp d l ha
  have h2 : ∀ l, lR n (reflPair (sgn s) bc) km kp (fun l c => s l * d l (n - 1 - c)) l a
      = s l * lL n bc km kp d l (n - a) := fun l => lR_refl s hs hn bc km kp d l ha
  simp only [h1, h2]
  exact hΦ

/-! ### the line pipeline on a scaled line -/

theorem lgrad_smul (n : ℕ) (per : Bool) (σ : α) (d : ℕ → α) (a : ℕ) :
    lgrad n per (fun c => σ * d c) a = σ * lgrad n per d a := by
  unfold lgrad
  split_ifs <;> ring

theorem lL0_smul (n : ℕ) (per : Bool) (km kp σ : α) (d : ℕ → α) (a : ℕ) :
    lL0 n per km kp (fun c => σ * d c) a = σ * lL0 n per km kp d a := by
  unfold lL0
  rw [lgrad_smul, lgrad_smul]
  split_ifs <;> ring

theorem lR0_smul (n : ℕ) (per : Bool) (km kp σ : α) (d : ℕ → α) (a : ℕ) :
    lR0 n per km kp (fun c => σ * d c) a = σ * lR0 n per km kp d a := by
  unfold lR0
  rw [lgrad_smul, lgrad_smul]
  split_ifs <;> ring

theorem lL_smul (s : ι → α) (hs : ∀ l, s l * s l = 1) (n : ℕ) (bc : BCPair α ι) (km kp : α)
    (d : ι → ℕ → α) (k : ι) (a : ℕ) :
    lL n (conjPair (sgn s) bc) km kp (fun l c => s l * d l c) k a = s k * lL n bc km kp d k a := by
  unfold lL
  rw [conjPair_isPer]
  by_cases h0 : a = 0
  · rw [if_pos h0, if_pos h0]
    rcases bc with _ | ⟨lo, hi⟩
    · exact lL0_smul n _ km kp (s k) (d k) n
    · show s k * lo (fun l => s l * lR0 n _ km kp (fun c => s l * d l c) 0) k
          = s k * lo (fun l => lR0 n _ km kp (d l) 0) k
      have e : ∀ l, s l * lR0 n (BCPair.open lo hi).isPer km kp (fun c => s l * d l c) 0
          = lR0 n (BCPair.open lo hi).isPer km kp (d l) 0 := by
        intro l
        rw [lR0_smul, ← mul_assoc, hs, one_mul]
      simp only [e]
  · rw [if_neg h0, if_neg h0]
    exact lL0_smul n _ km kp (s k) (d k) a

theorem lR_smul (s : ι → α) (hs : ∀ l, s l * s l = 1) (n : ℕ) (bc : BCPair α ι) (km kp : α)
    (d : ι → ℕ → α) (k : ι) (a : ℕ) :
    lR n (conjPair (sgn s) bc) km kp (fun l c => s l * d l c) k a = s k * lR n bc km kp d k a := by
  unfold lR
  rw [conjPair_isPer]
  by_cases h0 : a = n
  · rw [if_pos h0, if_pos h0]
    rcases bc with _ | ⟨lo, hi⟩
    · exact lR0_smul n _ km kp (s k) (d k) 0
    · show s k * hi (fun l => s l * lL0 n _ km kp (fun c => s l * d l c) n) k
          = s k * hi (fun l => lL0 n _ km kp (d l) n) k
      have e : ∀ l, s l * lL0 n (BCPair.open lo hi).isPer km kp (fun c => s l * d l c) n
          = lL0 n (BCPair.open lo hi).isPer km kp (d l) n := by
        intro l
        rw [lL0_smul, ← mul_assoc, hs, one_mul]
      simp only [e]
  · rw [if_neg h0, if_neg h0]
    exact lR0_smul n _ km kp (s k) (d k) a

theorem lFlux_smul (s : ι → α) (hs : ∀ l, s l * s l = 1) (n : ℕ) (bc : BCPair α ι) (km kp : α)
    (Φ : (ι → α) → (ι → α) → (ι → α)) (d : ι → ℕ → α) (k : ι) (a : ℕ)
    (hΦ : Φ (fun l => s l * lL n bc km kp d l a) (fun l => s l * lR n bc km kp d l a) k
      = s k * Φ (fun l => lL n bc km kp d l a) (fun l => lR n bc km kp d l a) k) :
    lFlux n (conjPair (sgn s) bc) km kp Φ (fun l c => s l * d l c) k a = s k * lFlux n bc km kp Φ d k a := by
  unfold lFlux
  have h1 : ∀ l, lL n (conjPair (sgn s) bc) km kp (fun l c => s l * d l c) l a
      = s l * lL n bc km kp d l a := fun l => lL_smul s hs n bc km kp d l a
  have h2 : ∀ l, lR n (conjPair (sgn s) bc) km kp (fun l c => s l * d l c) l a
      = s l * lR n bc km kp d l a := fun l => lR_smul s hs n bc km kp d l a
  simp only [h1, h2]
  exact hΦ

/-! ### reflection in x -/

/-- **reflection in x**, flux laws required only at the faces of the mirrored cell `(nx-1-i, j)`:
the mirror law at its two x-faces, the tangential law at its two y-faces -/
theorem rhs_reflect_x_loc (s : ι → α) (hs : ∀ l, s l * s l = 1) (D : Disc2D α ι)
    (hc2p : ∀ Q, D.c2p (fun l => s l * Q l) = fun l => s l * D.c2p Q l)
    (q : ι → ℕ → ℕ → α) (k : ι) (i j : ℕ) (hi : i < D.mesh.nx)
    (hfx : ∀ a, a = D.mesh.nx - 1 - i ∨ a = D.mesh.nx - 1 - i + 1 →
      D.flux 1 0 (fun l => s l * D.xR q l a j) (fun l => s l * D.xL q l a j) k
        = -s k * D.flux 1 0 (fun l => D.xL q l a j) (fun l => D.xR q l a j) k)
    (hfy : ∀ b, b = j ∨ b = j + 1 →
      D.flux 0 1 (fun l => s l * D.yL q l (D.mesh.nx - 1 - i) b) (fun l => s l * D.yR q l (D.mesh.nx - 1 - i) b) k
        = s k * D.flux 0 1 (fun l => D.yL q l (D.mesh.nx - 1 - i) b) (fun l => D.yR q l (D.mesh.nx - 1 - i) b) k) :
    (reflectDiscX s D).rhs (reflX s D.mesh.nx q) k i j = s k * D.rhs q k (D.mesh.nx - 1 - i) j := by
  have hn : 0 < D.mesh.nx := by omega
  have hp : ∀ l a b, (reflectDiscX s D).pdata (reflX s D.mesh.nx q) l a b
      = s l * D.pdata q l (D.mesh.nx - 1 - a) b := by
    intro l a b
    show D.c2p (fun l' => s l' * q l' (D.mesh.nx - 1 - a) b) l = s l * D.c2p (fun l' => q l' (D.mesh.nx - 1 - a) b) l
    rw [hc2p (fun l' => q l' (D.mesh.nx - 1 - a) b)]
  have hx : ∀ a, a ≤ D.mesh.nx → (D.mesh.nx - a = D.mesh.nx - 1 - i ∨ D.mesh.nx - a = D.mesh.nx - 1 - i + 1) →
      (reflectDiscX s D).xFlux (reflX s D.mesh.nx q) k a j = -s k * D.xFlux q k (D.mesh.nx - a) j := by
    intro a ha hfa
    rw [xFlux_line, xFlux_line]
    simp only [hp]
    exact lFlux_refl s hs hn D.bcx D.scheme.km D.scheme.kp (D.flux 1 0) (fun l a' => D.pdata q l a' j) k ha
      (hfx _ hfa)
  have hy : ∀ b, (b = j ∨ b = j + 1) →
      (reflectDiscX s D).yFlux (reflX s D.mesh.nx q) k i b = s k * D.yFlux q k (D.mesh.nx - 1 - i) b := by
    intro b hb
    rw [yFlux_line, yFlux_line]
    simp only [hp]
    exact lFlux_smul s hs D.mesh.ny D.bcy D.scheme.km D.scheme.kp (D.flux 0 1)
      (fun l b' => D.pdata q l (D.mesh.nx - 1 - i) b') k b (hfy b hb)
  unfold Disc2D.rhs
  rw [hx (i + 1) (by omega) (Or.inl (by omega)), hx i (by omega) (Or.inr (by omega)),
    hy (j + 1) (Or.inr rfl), hy j (Or.inl rfl),
    show D.mesh.nx - (i + 1) = D.mesh.nx - 1 - i by omega, show D.mesh.nx - i = D.mesh.nx - 1 - i + 1 by omega]
  show 0 - ((-s k * D.xFlux q k (D.mesh.nx - 1 - i) j - -s k * D.xFlux q k (D.mesh.nx - 1 - i + 1) j) / D.mesh.dx
      + (s k * D.yFlux q k (D.mesh.nx - 1 - i) (j + 1) - s k * D.yFlux q k (D.mesh.nx - 1 - i) j) / D.mesh.dy) = _
  ring

/-- **reflection in x**: the operator of the reflected problem on the reflected data is the reflected operator -/
theorem rhs_reflect_x (s : ι → α) (hs : ∀ l, s l * s l = 1) (D : Disc2D α ι)
    (hc2p : ∀ Q, D.c2p (fun l => s l * Q l) = fun l => s l * D.c2p Q l)
    (hfx : ∀ L R k, D.flux 1 0 (fun l => s l * R l) (fun l => s l * L l) k = -s k * D.flux 1 0 L R k)
    (hfy : ∀ L R k, D.flux 0 1 (fun l => s l * L l) (fun l => s l * R l) k = s k * D.flux 0 1 L R k)
    (q : ι → ℕ → ℕ → α) (k : ι) (i j : ℕ) (hi : i < D.mesh.nx) :
    (reflectDiscX s D).rhs (reflX s D.mesh.nx q) k i j = s k * D.rhs q k (D.mesh.nx - 1 - i) j :=
  rhs_reflect_x_loc s hs D hc2p q k i j hi (fun _ _ => hfx _ _ k) (fun _ _ => hfy _ _ k)

/-- the fully periodic case: the reflected problem is the problem itself -/
theorem rhs_reflect_x_per (s : ι → α) (hs : ∀ l, s l * s l = 1) (D : Disc2D α ι)
    (hbx : D.bcx = BCPair.periodic) (hby : D.bcy = BCPair.periodic)
    (hc2p : ∀ Q, D.c2p (fun l => s l * Q l) = fun l => s l * D.c2p Q l)
    (hfx : ∀ L R k, D.flux 1 0 (fun l => s l * R l) (fun l => s l * L l) k = -s k * D.flux 1 0 L R k)
    (hfy : ∀ L R k, D.flux 0 1 (fun l => s l * L l) (fun l => s l * R l) k = s k * D.flux 0 1 L R k)
    (q : ι → ℕ → ℕ → α) (k : ι) (i j : ℕ) (hi : i < D.mesh.nx) :
    D.rhs (reflX s D.mesh.nx q) k i j = s k * D.rhs q k (D.mesh.nx - 1 - i) j := by
  have hD : reflectDiscX s D = D := by
    obtain ⟨mesh, sch, bcx, bcy, c2p, flux⟩ := D
    simp only at hbx hby
    subst hbx hby
    rfl
  have h := rhs_reflect_x s hs D hc2p hfx hfy q k i j hi
  rwa [hD] at h

/-! ### reflection in y -/

theorem rhs_reflect_y_loc (s : ι → α) (hs : ∀ l, s l * s l = 1) (D : Disc2D α ι)
    (hc2p : ∀ Q, D.c2p (fun l => s l * Q l) = fun l => s l * D.c2p Q l)
    (q : ι → ℕ → ℕ → α) (k : ι) (i j : ℕ) (hj : j < D.mesh.ny)
    (hfy : ∀ b, b = D.mesh.ny - 1 - j ∨ b = D.mesh.ny - 1 - j + 1 →
      D.flux 0 1 (fun l => s l * D.yR q l i b) (fun l => s l * D.yL q l i b) k
        = -s k * D.flux 0 1 (fun l => D.yL q l i b) (fun l => D.yR q l i b) k)
    (hfx : ∀ a, a = i ∨ a = i + 1 →
      D.flux 1 0 (fun l => s l * D.xL q l a (D.mesh.ny - 1 - j)) (fun l => s l * D.xR q l a (D.mesh.ny - 1 - j)) k
        = s k * D.flux 1 0 (fun l => D.xL q l a (D.mesh.ny - 1 - j)) (fun l => D.xR q l a (D.mesh.ny - 1 - j)) k) :
    (reflectDiscY s D).rhs (reflY s D.mesh.ny q) k i j = s k * D.rhs q k i (D.mesh.ny - 1 - j) := by
  have hn : 0 < D.mesh.ny := by omega
  have hp : ∀ l a b, (reflectDiscY s D).pdata (reflY s D.mesh.ny q) l a b
      = s l * D.pdata q l a (D.mesh.ny - 1 - b) := by
    intro l a b
    show D.c2p (fun l' => s l' * q l' a (D.mesh.ny - 1 - b)) l = s l * D.c2p (fun l' => q l' a (D.mesh.ny - 1 - b)) l
    rw [hc2p (fun l' => q l' a (D.mesh.ny - 1 - b))]
  have hy : ∀ b, b ≤ D.mesh.ny → (D.mesh.ny - b = D.mesh.ny - 1 - j ∨ D.mesh.ny - b = D.mesh.ny - 1 - j + 1) →
      (reflectDiscY s D).yFlux (reflY s D.mesh.ny q) k i b = -s k * D.yFlux q k i (D.mesh.ny - b) := by
    intro b hb hfb
    rw [yFlux_line, yFlux_line]
    simp only [hp]
    exact lFlux_refl s hs hn D.bcy D.scheme.km D.scheme.kp (D.flux 0 1) (fun l b' => D.pdata q l i b') k hb
      (hfy _ hfb)
  have hx : ∀ a, (a = i ∨ a = i + 1) →
      (reflectDiscY s D).xFlux (reflY s D.mesh.ny q) k a j = s k * D.xFlux q k a (D.mesh.ny - 1 - j) := by
    intro a ha
    rw [xFlux_line, xFlux_line]
    simp only [hp]
    exact lFlux_smul s hs D.mesh.nx D.bcx D.scheme.km D.scheme.kp (D.flux 1 0)
      (fun l a' => D.pdata q l a' (D.mesh.ny - 1 - j)) k a (hfx a ha)
  unfold Disc2D.rhs
  rw [hy (j + 1) (by omega) (Or.inl (by omega)), hy j (by omega) (Or.inr (by omega)),
    hx (i + 1) (Or.inr rfl), hx i (Or.inl rfl),
    show D.mesh.ny - (j + 1) = D.mesh.ny - 1 - j by omega, show D.mesh.ny - j = D.mesh.ny - 1 - j + 1 by omega]
  show 0 - ((s k * D.xFlux q k (i + 1) (D.mesh.ny - 1 - j) - s k * D.xFlux q k i (D.mesh.ny - 1 - j)) / D.mesh.dx
      + (-s k * D.yFlux q k i (D.mesh.ny - 1 - j) - -s k * D.yFlux q k i (D.mesh.ny - 1 - j + 1)) / D.mesh.dy) = _
  ring

/-- **reflection in y** -/
theorem rhs_reflect_y (s : ι → α) (hs : ∀ l, s l * s l = 1) (D : Disc2D α ι)
    (hc2p : ∀ Q, D.c2p (fun l => s l * Q l) = fun l => s l * D.c2p Q l)
    (hfy : ∀ L R k, D.flux 0 1 (fun l => s l * R l) (fun l => s l * L l) k = -s k * D.flux 0 1 L R k)
    (hfx : ∀ L R k, D.flux 1 0 (fun l => s l * L l) (fun l => s l * R l) k = s k * D.flux 1 0 L R k)
    (q : ι → ℕ → ℕ → α) (k : ι) (i j : ℕ) (hj : j < D.mesh.ny) :
    (reflectDiscY s D).rhs (reflY s D.mesh.ny q) k i j = s k * D.rhs q k i (D.mesh.ny - 1 - j) :=
  rhs_reflect_y_loc s hs D hc2p q k i j hj (fun _ _ => hfy _ _ k) (fun _ _ => hfx _ _ k)

/-! ### non-vacuity of the generic theorems -/

/-- non-vacuity: linear acoustics `(p, u)` along x (centred + upwind dissipation), upwind advection along y;
components `false = p`, `true = u`; the reflection in x negates `u` -/
def exS : Bool → ℚ := fun b => if b then -1 else 1
def exFlux (nx ny : ℚ) (L R : Bool → ℚ) (k : Bool) : ℚ :=
  nx * ((L (!k) + R (!k)) / 2 + (L k - R k) / 2) + ny * L k
/-- 3×2 cells, κ = 1/3, left: reflecting wall, right: imposed state, periodic in y -/
def exDx : Disc2D ℚ Bool :=
  { mesh := { nx := 3, ny := 2, lx := 3, ly := 1 }, scheme := Scheme2D.kappa (1/3),
    bcx := BCPair.open (fun w b => if b then -w b else w b) (fun _ b => if b then 2 else 3),
    bcy := BCPair.periodic, c2p := id, flux := exFlux }
/-- the same with the roles of x and y exchanged -/
def exDy : Disc2D ℚ Bool :=
  { mesh := { nx := 2, ny := 3, lx := 1, ly := 3 }, scheme := Scheme2D.kappa (1/3),
    bcx := BCPair.periodic,
    bcy := BCPair.open (fun w b => if b then -w b else w b) (fun _ b => if b then 2 else 3),
    c2p := id, flux := fun nx ny => exFlux ny nx }
/-- fully periodic 2×2, first order -/
def exDp : Disc2D ℚ Bool :=
  { mesh := { nx := 2, ny := 2, lx := 1, ly := 1 }, scheme := Scheme2D.first,
    bcx := BCPair.periodic, bcy := BCPair.periodic, c2p := id, flux := exFlux }

theorem exS_sq (l : Bool) : exS l * exS l = 1 := by cases l <;> simp [exS]
theorem exFlux_mirror (L R : Bool → ℚ) (k : Bool) :
    exFlux 1 0 (fun l => exS l * R l) (fun l => exS l * L l) k = -exS k * exFlux 1 0 L R k := by
  cases k <;> simp [exFlux, exS] <;> ring
theorem exFlux_tangential (L R : Bool → ℚ) (k : Bool) :
    exFlux 0 1 (fun l => exS l * L l) (fun l => exS l * R l) k = exS k * exFlux 0 1 L R k := by
  cases k <;> simp [exFlux, exS]

example (q : Bool → ℕ → ℕ → ℚ) (k : Bool) (i j : ℕ) (hi : i < 3) :
    (reflectDiscX exS exDx).rhs (reflX exS 3 q) k i j = exS k * exDx.rhs q k (3 - 1 - i) j :=
  rhs_reflect_x exS exS_sq exDx (fun _ => rfl) exFlux_mirror exFlux_tangential q k i j hi

example (q : Bool → ℕ → ℕ → ℚ) (k : Bool) (i j : ℕ) (hi : i < 2) :
    exDp.rhs (reflX exS 2 q) k i j = exS k * exDp.rhs q k (2 - 1 - i) j :=
  rhs_reflect_x_per exS exS_sq exDp rfl rfl (fun _ => rfl) exFlux_mirror exFlux_tangential q k i j hi

example (q : Bool → ℕ → ℕ → ℚ) (k : Bool) (i j : ℕ) (hj : j < 3) :
    (reflectDiscY exS exDy).rhs (reflY exS 3 q) k i j = exS k * exDy.rhs q k i (3 - 1 - j) :=
  rhs_reflect_y exS exS_sq exDy (fun _ => rfl) exFlux_mirror exFlux_tangential q k i j hj

/-- the statement is not trivial: a concrete value of the right-hand side is non-zero -/
example : exDp.rhs (fun k i j => if k then (i : ℚ) else (j : ℚ) + 1) true 0 0 ≠ 0 := by
  simp [Disc2D.rhs, Disc2D.xFlux, Disc2D.yFlux, Disc2D.xL, Disc2D.xR, Disc2D.yL, Disc2D.yR, Disc2D.xL0,
    Disc2D.xR0, Disc2D.yL0, Disc2D.yR0, Disc2D.pdata, Disc2D.xgrad, Disc2D.ygrad, exDp, exFlux, Scheme2D.km,
    Scheme2D.kp, Mesh2D.dx, Mesh2D.dy]
  norm_num

/-! ### Euler 2D: the kernel laws and the instantiated theorems (over ℝ) -/

section
variable {α : Type} [Field α] [LinearOrder α] [HasSqrt α]

/-- tangential law (adapter, not in C02b): at a y-face, negating `ux` in both states (no swap) negates the
x-momentum flux and leaves the other fluxes unchanged; no positivity needed -/
theorem e2Hlle_tangential_x (γ rL uxL uyL pL rR uxR uyR pR : α) :
    e2Hlle γ 0 1 rL (-uxL) uyL pL rR (-uxR) uyR pR
      = (let F := e2Hlle γ 0 1 rL uxL uyL pL rR uxR uyR pR; (F.1, -F.2.1, F.2.2.1, F.2.2.2)) := by
  simp only [e2Hlle, mul_zero, mul_one, zero_add, neg_mul, ← neg_add, mul_neg, neg_sq]
  refine Prod.ext ?_ (Prod.ext ?_ (Prod.ext ?_ ?_)) <;> simp only
  rw [← neg_div]; congr 1; ring

/-- tangential law at an x-face for negated `uy` -/
theorem e2Hlle_tangential_y (γ rL uxL uyL pL rR uxR uyR pR : α) :
    e2Hlle γ 1 0 rL uxL (-uyL) pL rR uxR (-uyR) pR
      = (let F := e2Hlle γ 1 0 rL uxL uyL pL rR uxR uyR pR; (F.1, F.2.1, -F.2.2.1, F.2.2.2)) := by
  simp only [e2Hlle, mul_zero, mul_one, add_zero, neg_mul, ← neg_add, mul_neg, neg_sq]
  refine Prod.ext ?_ (Prod.ext ?_ (Prod.ext ?_ ?_)) <;> simp only
  rw [← neg_div]; congr 1; ring

omit [LinearOrder α] [HasSqrt α] in
theorem e2Centered_tangential_x (γ rL uxL uyL pL rR uxR uyR pR : α) :
    e2Centered γ 0 1 rL (-uxL) uyL pL rR (-uxR) uyR pR
      = (let F := e2Centered γ 0 1 rL uxL uyL pL rR uxR uyR pR; (F.1, -F.2.1, F.2.2.1, F.2.2.2)) := by
  simp only [e2Centered]
  refine Prod.ext ?_ (Prod.ext ?_ (Prod.ext ?_ ?_)) <;> simp only <;> ring

omit [LinearOrder α] [HasSqrt α] in
theorem e2Centered_tangential_y (γ rL uxL uyL pL rR uxR uyR pR : α) :
    e2Centered γ 1 0 rL uxL (-uyL) pL rR uxR (-uyR) pR
      = (let F := e2Centered γ 1 0 rL uxL uyL pL rR uxR uyR pR; (F.1, F.2.1, -F.2.2.1, F.2.2.2)) := by
  simp only [e2Centered]
  refine Prod.ext ?_ (Prod.ext ?_ (Prod.ext ?_ ?_)) <;> simp only <;> ring
end

/-- sign vector of the reflection in x: the x-velocity / x-momentum (component 1) changes sign -/
def eSx : ℕ → ℝ := fun k => if k = 1 then -1 else 1
/-- sign vector of the reflection in y: component 2 changes sign -/
def eSy : ℕ → ℝ := fun k => if k = 2 then -1 else 1

theorem eSx_sq (l : ℕ) : eSx l * eSx l = 1 := by unfold eSx; split_ifs <;> norm_num
theorem eSy_sq (l : ℕ) : eSy l * eSy l = 1 := by unfold eSy; split_ifs <;> norm_num

theorem vec4_eSx (a b c d : ℝ) (k : ℕ) : vec4 (a, -b, c, d) k = eSx k * vec4 (a, b, c, d) k := by
  rcases k with _ | _ | _ | k <;> simp [vec4, eSx]
theorem vec4_neg_eSx (a b c d : ℝ) (k : ℕ) : vec4 (-a, b, -c, -d) k = -eSx k * vec4 (a, b, c, d) k := by
  rcases k with _ | _ | _ | k <;> simp [vec4, eSx]
theorem vec4_eSy (a b c d : ℝ) (k : ℕ) : vec4 (a, b, -c, d) k = eSy k * vec4 (a, b, c, d) k := by
  rcases k with _ | _ | _ | k <;> simp [vec4, eSy]
theorem vec4_neg_eSy (a b c d : ℝ) (k : ℕ) : vec4 (-a, -b, c, -d) k = -eSy k * vec4 (a, b, c, d) k := by
  rcases k with _ | _ | _ | k <;> simp [vec4, eSy]

@[simp] theorem eSx_0 : eSx 0 = 1 := by simp [eSx]
@[simp] theorem eSx_1 : eSx 1 = -1 := by simp [eSx]
@[simp] theorem eSx_2 : eSx 2 = 1 := by simp [eSx]
@[simp] theorem eSx_3 : eSx 3 = 1 := by simp [eSx]
@[simp] theorem eSy_0 : eSy 0 = 1 := by simp [eSy]
@[simp] theorem eSy_1 : eSy 1 = 1 := by simp [eSy]
@[simp] theorem eSy_2 : eSy 2 = -1 := by simp [eSy]
@[simp] theorem eSy_3 : eSy 3 = 1 := by simp [eSy]

/-- `cons2prim` commutes with the sign map of the x-reflection -/
theorem euler2dC2P_sign_x (γ : ℝ) (Q : ℕ → ℝ) :
    euler2dC2P γ (fun l => eSx l * Q l) = fun l => eSx l * euler2dC2P γ Q l := by
  funext k
  unfold euler2dC2P
  rw [← vec4_eSx]
  simp only [eSx_0, eSx_1, eSx_2, eSx_3, one_mul, neg_one_mul, e2Cons2prim, e2Pressure, e2Kinetic, neg_sq, neg_div]

theorem euler2dC2P_sign_y (γ : ℝ) (Q : ℕ → ℝ) :
    euler2dC2P γ (fun l => eSy l * Q l) = fun l => eSy l * euler2dC2P γ Q l := by
  funext k
  unfold euler2dC2P
  rw [← vec4_eSy]
  simp only [eSy_0, eSy_1, eSy_2, eSy_3, one_mul, neg_one_mul, e2Cons2prim, e2Pressure, e2Kinetic, neg_sq, neg_div]

/-- mirror law of the Euler 2D fluxes at an x-face (HLLE: positive densities) -/
theorem euler2dFluxV_mirror_x (γ : ℝ) (f : Euler2DFlux) (L R : ℕ → ℝ) (k : ℕ)
    (hpos : f = Euler2DFlux.hlle → 0 < L 0 ∧ 0 < R 0) :
    euler2dFluxV γ f 1 0 (fun l => eSx l * R l) (fun l => eSx l * L l) k = -eSx k * euler2dFluxV γ f 1 0 L R k := by
  cases f with
  | centered =>
    simp only [euler2dFluxV, eSx_0, eSx_1, eSx_2, eSx_3, one_mul, neg_one_mul]
    rw [C02.e2Centered_mirror_x]
    exact vec4_neg_eSx _ _ _ _ k
  | hlle =>
    obtain ⟨hL, hR⟩ := hpos rfl
    simp only [euler2dFluxV, eSx_0, eSx_1, eSx_2, eSx_3, one_mul, neg_one_mul]
    rw [C02.e2Hlle_mirror_x _ _ _ _ _ _ _ _ _ hL hR]
    exact vec4_neg_eSx _ _ _ _ k

/-- tangential law at a y-face: negating `ux` on both sides negates the x-momentum flux only -/
theorem euler2dFluxV_tangential_x (γ : ℝ) (f : Euler2DFlux) (L R : ℕ → ℝ) (k : ℕ) :
    euler2dFluxV γ f 0 1 (fun l => eSx l * L l) (fun l => eSx l * R l) k = eSx k * euler2dFluxV γ f 0 1 L R k := by
  cases f with
  | centered =>
    simp only [euler2dFluxV, eSx_0, eSx_1, eSx_2, eSx_3, one_mul, neg_one_mul]
    rw [e2Centered_tangential_x]
    exact vec4_eSx _ _ _ _ k
  | hlle =>
    simp only [euler2dFluxV, eSx_0, eSx_1, eSx_2, eSx_3, one_mul, neg_one_mul]
    rw [e2Hlle_tangential_x]
    exact vec4_eSx _ _ _ _ k

theorem euler2dFluxV_mirror_y (γ : ℝ) (f : Euler2DFlux) (L R : ℕ → ℝ) (k : ℕ)
    (hpos : f = Euler2DFlux.hlle → 0 < L 0 ∧ 0 < R 0) :
    euler2dFluxV γ f 0 1 (fun l => eSy l * R l) (fun l => eSy l * L l) k = -eSy k * euler2dFluxV γ f 0 1 L R k := by
  cases f with
  | centered =>
    simp only [euler2dFluxV, eSy_0, eSy_1, eSy_2, eSy_3, one_mul, neg_one_mul]
    rw [C02.e2Centered_mirror_y]
    exact vec4_neg_eSy _ _ _ _ k
  | hlle =>
    obtain ⟨hL, hR⟩ := hpos rfl
    simp only [euler2dFluxV, eSy_0, eSy_1, eSy_2, eSy_3, one_mul, neg_one_mul]
    rw [C02.e2Hlle_mirror_y _ _ _ _ _ _ _ _ _ hL hR]
    exact vec4_neg_eSy _ _ _ _ k

theorem euler2dFluxV_tangential_y (γ : ℝ) (f : Euler2DFlux) (L R : ℕ → ℝ) (k : ℕ) :
    euler2dFluxV γ f 1 0 (fun l => eSy l * L l) (fun l => eSy l * R l) k = eSy k * euler2dFluxV γ f 1 0 L R k := by
  cases f with
  | centered =>
    simp only [euler2dFluxV, eSy_0, eSy_1, eSy_2, eSy_3, one_mul, neg_one_mul]
    rw [e2Centered_tangential_y]
    exact vec4_eSy _ _ _ _ k
  | hlle =>
    simp only [euler2dFluxV, eSy_0, eSy_1, eSy_2, eSy_3, one_mul, neg_one_mul]
    rw [e2Hlle_tangential_y]
    exact vec4_eSy _ _ _ _ k

/-- **Euler 2D, reflection in x** (centered or HLLE flux; any scheme; any boundary kernels, exchanged and conjugated).
For HLLE the reconstructed densities at the two x-faces of the mirrored cell must be positive. -/
theorem euler2d_reflect_x (γ : ℝ) (f : Euler2DFlux) (D : Disc2D ℝ ℕ)
    (hc : D.c2p = euler2dC2P γ) (hf : D.flux = euler2dFluxV γ f)
    (q : ℕ → ℕ → ℕ → ℝ) (k i j : ℕ) (hi : i < D.mesh.nx)
    (hpos : f = Euler2DFlux.hlle → ∀ a, a = D.mesh.nx - 1 - i ∨ a = D.mesh.nx - 1 - i + 1 →
      0 < D.xL q 0 a j ∧ 0 < D.xR q 0 a j) :
    (reflectDiscX eSx D).rhs (reflX eSx D.mesh.nx q) k i j = eSx k * D.rhs q k (D.mesh.nx - 1 - i) j := by
  apply rhs_reflect_x_loc eSx eSx_sq D (by rw [hc]; exact euler2dC2P_sign_x γ) q k i j hi
  · intro a ha
    rw [hf]
    exact euler2dFluxV_mirror_x γ f _ _ k (fun h => hpos h a ha)
  · intro b _
    rw [hf]
    exact euler2dFluxV_tangential_x γ f _ _ k

/-- **Euler 2D, reflection in y** -/
theorem euler2d_reflect_y (γ : ℝ) (f : Euler2DFlux) (D : Disc2D ℝ ℕ)
    (hc : D.c2p = euler2dC2P γ) (hf : D.flux = euler2dFluxV γ f)
    (q : ℕ → ℕ → ℕ → ℝ) (k i j : ℕ) (hj : j < D.mesh.ny)
    (hpos : f = Euler2DFlux.hlle → ∀ b, b = D.mesh.ny - 1 - j ∨ b = D.mesh.ny - 1 - j + 1 →
      0 < D.yL q 0 i b ∧ 0 < D.yR q 0 i b) :
    (reflectDiscY eSy D).rhs (reflY eSy D.mesh.ny q) k i j = eSy k * D.rhs q k i (D.mesh.ny - 1 - j) := by
  apply rhs_reflect_y_loc eSy eSy_sq D (by rw [hc]; exact euler2dC2P_sign_y γ) q k i j hj
  · intro b hb
    rw [hf]
    exact euler2dFluxV_mirror_y γ f _ _ k (fun h => hpos h b hb)
  · intro a _
    rw [hf]
    exact euler2dFluxV_tangential_y γ f _ _ k

/-! ### the reflected named boundary conditions of Euler 2D -/

/-- the boundary condition seen in the mirror `x ↦ -x`: imposed states / directions are mirrored -/
noncomputable def bcReflX : Euler2DBC ℝ → Euler2DBC ℝ
  | .dirichlet prim => .dirichlet (sgn eSx prim)
  | .insup ptot rttot p (some d) => .insup ptot rttot p (some (-d.1, d.2))
  | b => b
noncomputable def bcReflY : Euler2DBC ℝ → Euler2DBC ℝ
  | .dirichlet prim => .dirichlet (sgn eSy prim)
  | .insup ptot rttot p (some d) => .insup ptot rttot p (some (d.1, -d.2))
  | b => b

/-- conjugating a named boundary kernel of outward normal `(nx, ny)` by the sign map gives the mirrored
named kernel of outward normal `(-nx, ny)` -/
theorem euler2dBC_reflect_x (γ nx ny : ℝ) (b : Euler2DBC ℝ) (w : ℕ → ℝ) :
    sgn eSx (euler2dBC γ nx ny b (sgn eSx w)) = euler2dBC γ (-nx) ny (bcReflX b) w := by
  funext k
  rcases b with prim | _ | ⟨ptot, rttot⟩ | ⟨ptot, rttot, p, _ | d⟩ | p | _
  · rfl
  all_goals
    simp only [sgn, bcReflX, euler2dBC, e2BcSym, e2BcInsub, e2BcInsup, e2BcOutsub, e2BcOutsup,
      eSx_0, eSx_1, eSx_2, eSx_3, one_mul, neg_one_mul]
    rw [← vec4_eSx]
    congr 1
    refine Prod.ext rfl (Prod.ext ?_ (Prod.ext ?_ rfl)) <;> simp only <;> ring

theorem euler2dBC_reflect_y (γ nx ny : ℝ) (b : Euler2DBC ℝ) (w : ℕ → ℝ) :
    sgn eSy (euler2dBC γ nx ny b (sgn eSy w)) = euler2dBC γ nx (-ny) (bcReflY b) w := by
  funext k
  rcases b with prim | _ | ⟨ptot, rttot⟩ | ⟨ptot, rttot, p, _ | d⟩ | p | _
  · rfl
  all_goals
    simp only [sgn, bcReflY, euler2dBC, e2BcSym, e2BcInsub, e2BcInsup, e2BcOutsub, e2BcOutsup,
      eSy_0, eSy_1, eSy_2, eSy_3, one_mul, neg_one_mul]
    rw [← vec4_eSy]
    congr 1
    refine Prod.ext rfl (Prod.ext ?_ (Prod.ext ?_ rfl)) <;> simp only <;> ring

/-- the reflected left/right pair of named conditions: the same named kernels (mirrored data), sides exchanged -/
theorem reflPair_euler_x (γ : ℝ) (bl br : Euler2DBC ℝ) :
    reflPair (sgn eSx) (BCPair.open (euler2dBC γ (-1) 0 bl) (euler2dBC γ 1 0 br))
      = BCPair.open (euler2dBC γ (-1) 0 (bcReflX br)) (euler2dBC γ 1 0 (bcReflX bl)) := by
  show BCPair.open (fun w => sgn eSx (euler2dBC γ 1 0 br (sgn eSx w)))
      (fun w => sgn eSx (euler2dBC γ (-1) 0 bl (sgn eSx w))) = _
  congr 1
  · funext w; exact euler2dBC_reflect_x γ 1 0 br w
  · funext w; rw [euler2dBC_reflect_x γ (-1) 0 bl w, neg_neg]

/-- the conjugated bottom/top pair of named conditions under the x-reflection -/
theorem conjPair_euler_x (γ : ℝ) (bb bt : Euler2DBC ℝ) :
    conjPair (sgn eSx) (BCPair.open (euler2dBC γ 0 (-1) bb) (euler2dBC γ 0 1 bt))
      = BCPair.open (euler2dBC γ 0 (-1) (bcReflX bb)) (euler2dBC γ 0 1 (bcReflX bt)) := by
  show BCPair.open (fun w => sgn eSx (euler2dBC γ 0 (-1) bb (sgn eSx w)))
      (fun w => sgn eSx (euler2dBC γ 0 1 bt (sgn eSx w))) = _
  congr 1
  · funext w; rw [euler2dBC_reflect_x γ 0 (-1) bb w, neg_zero]
  · funext w; rw [euler2dBC_reflect_x γ 0 1 bt w, neg_zero]

/-! ### non-vacuity of the Euler theorems
HLLE: 3×2 cells, κ = 1/3, wall on the left, pressure outlet on the right,
periodic in y; all reconstructed face densities of the chosen field are positive -/
noncomputable def exE : Disc2D ℝ ℕ :=
  { mesh := { nx := 3, ny := 2, lx := 3, ly := 2 }, scheme := Scheme2D.kappa (1/3),
    bcx := BCPair.open (euler2dBC (7/5) (-1) 0 Euler2DBC.sym) (euler2dBC (7/5) 1 0 (Euler2DBC.outsub 1)),
    bcy := BCPair.periodic, c2p := euler2dC2P (7/5), flux := euler2dFluxV (7/5) Euler2DFlux.hlle }
noncomputable def exQ : ℕ → ℕ → ℕ → ℝ := fun k i j =>
  match k with | 0 => 1 + i + 2 * j | 1 => i - j | 2 => 1 | _ => 10 + i

theorem exE_pos (a j : ℕ) (ha : a ≤ 3) (hj : j < 2) : 0 < exE.xL exQ 0 a j ∧ 0 < exE.xR exQ 0 a j := by
  interval_cases a <;> interval_cases j <;>
    simp [Disc2D.xL, Disc2D.xR, Disc2D.xL0, Disc2D.xR0, Disc2D.pdata, Disc2D.xgrad, exE, exQ, Scheme2D.km,
      Scheme2D.kp, BCPair.isPer, euler2dC2P, euler2dBC, e2Cons2prim, e2BcSym, e2BcOutsub, vec4] <;> norm_num

example (k i j : ℕ) (hi : i < 3) (hj : j < 2) :
    (reflectDiscX eSx exE).rhs (reflX eSx 3 exQ) k i j = eSx k * exE.rhs exQ k (3 - 1 - i) j :=
  euler2d_reflect_x (7/5) Euler2DFlux.hlle exE rfl rfl exQ k i j hi
    (fun _ a ha => exE_pos a j (by have h3 : exE.mesh.nx = 3 := rfl; omega) hj)


/-- the reflected problem of `exE` is what one expects: pressure outlet on the left, wall on the right -/
example : reflectDiscX eSx exE =
    { exE with bcx := BCPair.open (euler2dBC (7/5) (-1) 0 (Euler2DBC.outsub 1)) (euler2dBC (7/5) 1 0 Euler2DBC.sym) } := by
  show ({ mesh := _, scheme := _, bcx := reflPair (sgn eSx) (BCPair.open _ _), bcy := _, c2p := _, flux := _ }
    : Disc2D ℝ ℕ) = _
  rw [reflPair_euler_x]
  rfl

/-- the same configuration turned by 90°, for the reflection in y -/
noncomputable def exEy : Disc2D ℝ ℕ :=
  { mesh := { nx := 2, ny := 3, lx := 2, ly := 3 }, scheme := Scheme2D.kappa (1/3),
    bcx := BCPair.periodic,
    bcy := BCPair.open (euler2dBC (7/5) 0 (-1) Euler2DBC.sym) (euler2dBC (7/5) 0 1 (Euler2DBC.outsub 1)),
    c2p := euler2dC2P (7/5), flux := euler2dFluxV (7/5) Euler2DFlux.hlle }
noncomputable def exQy : ℕ → ℕ → ℕ → ℝ := fun k i j =>
  match k with | 0 => 1 + j + 2 * i | 1 => 1 | 2 => j - i | _ => 10 + j

theorem exEy_pos (i b : ℕ) (hi : i < 2) (hb : b ≤ 3) : 0 < exEy.yL exQy 0 i b ∧ 0 < exEy.yR exQy 0 i b := by
  interval_cases b <;> interval_cases i <;>
    simp [Disc2D.yL, Disc2D.yR, Disc2D.yL0, Disc2D.yR0, Disc2D.pdata, Disc2D.ygrad, exEy, exQy, Scheme2D.km,
      Scheme2D.kp, BCPair.isPer, euler2dC2P, euler2dBC, e2Cons2prim, e2BcSym, e2BcOutsub, vec4] <;> norm_num

example (k i j : ℕ) (hi : i < 2) (hj : j < 3) :
    (reflectDiscY eSy exEy).rhs (reflY eSy 3 exQy) k i j = eSy k * exEy.rhs exQy k i (3 - 1 - j) :=
  euler2d_reflect_y (7/5) Euler2DFlux.hlle exEy rfl rfl exQy k i j hj
    (fun _ b hb => exEy_pos i b hi (by have h3 : exEy.mesh.ny = 3 := rfl; omega))

/-- centered flux: no positivity needed, any data, any boundary kernels -/
example (γ : ℝ) (D : Disc2D ℝ ℕ) (hc : D.c2p = euler2dC2P γ) (hf : D.flux = euler2dFluxV γ Euler2DFlux.centered)
    (q : ℕ → ℕ → ℕ → ℝ) (k i j : ℕ) (hi : i < D.mesh.nx) :
    (reflectDiscX eSx D).rhs (reflX eSx D.mesh.nx q) k i j = eSx k * D.rhs q k (D.mesh.nx - 1 - i) j :=
  euler2d_reflect_x γ Euler2DFlux.centered D hc hf q k i j hi (fun h => nomatch h)

end Flowdyn.C15
