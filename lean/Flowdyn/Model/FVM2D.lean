/-
Model of the 2D Cartesian mesh `mesh2d` (mesh2d.py) and of the finite-volume pipeline `fvm2dcart`
(modeldisc.py:165-358) with the 2D reconstructions `extrapol2d1`, `extrapol2dk` (xnum.py:81-153).

Structured indices: cell `(i, j)`, `i < nx` fast; x-faces `(i, j)` with `i ≤ nx` (between cells `i-1` and `i`
of row `j`), y-faces `(i, j)` with `j ≤ ny` (between rows `j-1` and `j`).  The code stores everything in
flat arrays; the flattening maps are separate definitions (`cellIdx`, `xFaceIdx`, `yFaceIdx`).
Components `ι` (for Euler 2D: ρ, ux, uy, p — the code keeps the velocity as one (2,n) array; the model
flattens it into two scalar components, which is how every stage treats it).
-/
import Flowdyn.Num

namespace Flowdyn
variable {α : Type} [Field α] {ι : Type}

structure Mesh2D (α : Type) where
  nx : ℕ
  ny : ℕ
  lx : α
  ly : α

namespace Mesh2D
def dx (m : Mesh2D α) : α := m.lx / m.nx
def dy (m : Mesh2D α) : α := m.ly / m.ny
def ncell (m : Mesh2D α) : ℕ := m.nx * m.ny
def nbfaces (m : Mesh2D α) : ℕ := (m.nx + 1) * m.ny + m.nx * (m.ny + 1)
def vol (m : Mesh2D α) : α := m.dx * m.dy
/-- cell centre of cell `(i,j)`: `linspace(0, l, n, endpoint=False) + dx/2` -/
def xc (m : Mesh2D α) (i : ℕ) : α := (i : α) * (m.lx / m.nx) + 1/2 * m.dx
def yc (m : Mesh2D α) (j : ℕ) : α := (j : α) * (m.ly / m.ny) + 1/2 * m.dy
/-- flattening maps of the code -/
def cellIdx (m : Mesh2D α) (i j : ℕ) : ℕ := j * m.nx + i
def xFaceIdx (m : Mesh2D α) (i j : ℕ) : ℕ := j * (m.nx + 1) + i
def yFaceIdx (m : Mesh2D α) (i j : ℕ) : ℕ := m.ny * (m.nx + 1) + j * m.nx + i
/-- `_io_bcfaces` -/
def leftFaces (m : Mesh2D α) : List ℕ := (List.range m.ny).map fun j => j * (m.nx + 1)
def rightFaces (m : Mesh2D α) : List ℕ := (List.range m.ny).map fun j => (j + 1) * (m.nx + 1) - 1
def topFaces (m : Mesh2D α) : List ℕ := (List.range m.nx).map fun i => m.ny * (m.nx + 1) + m.ny * m.nx + i
def bottomFaces (m : Mesh2D α) : List ℕ := (List.range m.nx).map fun i => m.ny * (m.nx + 1) + i
end Mesh2D

/-- `extrapol2d1` (first order) or `extrapol2dk κ` -/
inductive Scheme2D (α : Type) where
  | first
  | kappa (k : α)

def Scheme2D.km : Scheme2D α → α
  | .first => 0
  | .kappa k => (1 - k) / 4
def Scheme2D.kp : Scheme2D α → α
  | .first => 0
  | .kappa k => (1 + k) / 4

/-- boundary treatment of one pair of opposite sides -/
inductive BCPair (α ι : Type) where
  | periodic
  /-- kernels of the low side (left / bottom) and of the high side (right / top), normals baked in -/
  | open (lo hi : (ι → α) → (ι → α))

def BCPair.isPer : BCPair α ι → Bool
  | .periodic => true
  | .open _ _ => false

structure Disc2D (α ι : Type) where
  mesh : Mesh2D α
  scheme : Scheme2D α
  bcx : BCPair α ι
  bcy : BCPair α ι
  c2p : (ι → α) → (ι → α)
  /-- numerical flux through a face of normal `(nx, ny)` -/
  flux : α → α → (ι → α) → (ι → α) → (ι → α)

namespace Disc2D
variable (D : Disc2D α ι)

/-- cell data `q k i j` -/
def pdata (q : ι → ℕ → ℕ → α) (k : ι) (i j : ℕ) : α := D.c2p (fun l => q l i j) k

/-- `calc_grad` + `calc_bc_grad`: x-differences at x-faces (NOT divided by dx) -/
def xgrad (q : ι → ℕ → ℕ → α) (k : ι) (i j : ℕ) : α :=
  if i = 0 ∨ i = D.mesh.nx then
    (if D.bcx.isPer then D.pdata q k 0 j - D.pdata q k (D.mesh.nx - 1) j else 0)
  else D.pdata q k i j - D.pdata q k (i - 1) j
/-- y-differences at y-faces -/
def ygrad (q : ι → ℕ → ℕ → α) (k : ι) (i j : ℕ) : α :=
  if j = 0 ∨ j = D.mesh.ny then
    (if D.bcy.isPer then D.pdata q k i 0 - D.pdata q k i (D.mesh.ny - 1) else 0)
  else D.pdata q k i j - D.pdata q k i (j - 1)

/-- `interp_face`: left state at x-face `(i,j)`, from cell `(i-1, j)`; `0` at `i = 0` -/
def xL0 (q : ι → ℕ → ℕ → α) (k : ι) (i j : ℕ) : α :=
  if i = 0 then 0 else D.pdata q k (i - 1) j + D.scheme.km * D.xgrad q k (i - 1) j + D.scheme.kp * D.xgrad q k i j
/-- right state at x-face `(i,j)`, from cell `(i, j)`; `0` at `i = nx` -/
def xR0 (q : ι → ℕ → ℕ → α) (k : ι) (i j : ℕ) : α :=
  if i = D.mesh.nx then 0 else D.pdata q k i j - D.scheme.km * D.xgrad q k (i + 1) j - D.scheme.kp * D.xgrad q k i j
def yL0 (q : ι → ℕ → ℕ → α) (k : ι) (i j : ℕ) : α :=
  if j = 0 then 0 else D.pdata q k i (j - 1) + D.scheme.km * D.ygrad q k i (j - 1) + D.scheme.kp * D.ygrad q k i j
def yR0 (q : ι → ℕ → ℕ → α) (k : ι) (i j : ℕ) : α :=
  if j = D.mesh.ny then 0 else D.pdata q k i j - D.scheme.km * D.ygrad q k i (j + 1) - D.scheme.kp * D.ygrad q k i j

/-- `calc_bc` -/
def xL (q : ι → ℕ → ℕ → α) (k : ι) (i j : ℕ) : α :=
  if i = 0 then
    match D.bcx with
    | .periodic => D.xL0 q k D.mesh.nx j
    | .open lo _ => lo (fun l => D.xR0 q l 0 j) k
  else D.xL0 q k i j
def xR (q : ι → ℕ → ℕ → α) (k : ι) (i j : ℕ) : α :=
  if i = D.mesh.nx then
    match D.bcx with
    | .periodic => D.xR0 q k 0 j
    | .open _ hi => hi (fun l => D.xL0 q l D.mesh.nx j) k
  else D.xR0 q k i j
def yL (q : ι → ℕ → ℕ → α) (k : ι) (i j : ℕ) : α :=
  if j = 0 then
    match D.bcy with
    | .periodic => D.yL0 q k i D.mesh.ny
    | .open lo _ => lo (fun l => D.yR0 q l i 0) k
  else D.yL0 q k i j
def yR (q : ι → ℕ → ℕ → α) (k : ι) (i j : ℕ) : α :=
  if j = D.mesh.ny then
    match D.bcy with
    | .periodic => D.yR0 q k i 0
    | .open _ hi => hi (fun l => D.yL0 q l i D.mesh.ny) k
  else D.yR0 q k i j

/-- `calc_flux`: normal `(1,0)` on x-faces, `(0,1)` on y-faces -/
def xFlux (q : ι → ℕ → ℕ → α) (k : ι) (i j : ℕ) : α := D.flux 1 0 (fun l => D.xL q l i j) (fun l => D.xR q l i j) k
def yFlux (q : ι → ℕ → ℕ → α) (k : ι) (i j : ℕ) : α := D.flux 0 1 (fun l => D.yL q l i j) (fun l => D.yR q l i j) k

/-- `calc_res` -/
def rhs (q : ι → ℕ → ℕ → α) (k : ι) (i j : ℕ) : α :=
  0 - ((D.xFlux q k (i + 1) j - D.xFlux q k i j) / D.mesh.dx + (D.yFlux q k i (j + 1) - D.yFlux q k i j) / D.mesh.dy)

end Disc2D
end Flowdyn
