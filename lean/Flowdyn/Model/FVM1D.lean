/-
Model of the 1D finite-volume pipeline `modeldisc.fvm1d` (modeldisc.py:66-158) and of the 1D
reconstructions of `xnum.py`.

  rhs = cons2prim → calc_grad → calc_bc_grad → interp_face → calc_bc → calc_flux → calc_res → add_source

Data layout as in the code: a list of `neq` arrays, here `ι → ℕ → α` (equation, cell) for cell data
and (equation, face) for face data, faces `0 … n`.  Gradient and reconstruction act on each
component separately (the python loops over `range(len(data))`), boundary states and fluxes are
pointwise kernels on the vector of components.
-/
import Flowdyn.Model.Mesh
import Flowdyn.Model.Limiters

namespace Flowdyn
variable {α : Type} [Field α]

/-- `calc_grad` + `calc_bc_grad` for one component: face-based one-sided differences.
Interior faces `1 … n-1`: `(d[f]-d[f-1])/(xc[f]-xc[f-1])`; the two end faces: the periodic closure
`(d[0]-d[n-1])/(xc[0]+length-xc[n-1])` or `0`. -/
def grad1d (m : Mesh1D α) (per : Bool) (d : ℕ → α) (f : ℕ) : α :=
  if f = 0 ∨ f = m.n then
    (if per then (d 0 - d (m.n - 1)) / (m.xc 0 + m.length - m.xc (m.n - 1)) else 0)
  else (d f - d (f - 1)) / (m.xc f - m.xc (f - 1))

/-- reconstruction operators of `xnum.py` -/
inductive Scheme (α : Type) where
  | extrapol1
  | extrapol2
  | extrapolk (k : α)
  | muscl (lim : α → α → α)

/-- slope used for the *left* state of face `f ≥ 1` (cell `f-1`, whose faces are `f-1` and `f`) -/
def slopeL (s : Scheme α) (g : ℕ → α) (f : ℕ) : α :=
  match s with
  | .extrapol1 => 0
  | .extrapol2 => g (f - 1)
  | .extrapolk k => ((1 - k) * g (f - 1) + (1 + k) * g f) / 2
  | .muscl lim => lim (g f) (g (f - 1))

/-- slope used for the *right* state of face `f ≤ n-1` (cell `f`, whose faces are `f` and `f+1`) -/
def slopeR (s : Scheme α) (g : ℕ → α) (f : ℕ) : α :=
  match s with
  | .extrapol1 => 0
  | .extrapol2 => g (f + 1)
  | .extrapolk k => ((1 - k) * g (f + 1) + (1 + k) * g f) / 2
  | .muscl lim => lim (g f) (g (f + 1))

/-- `interp_face`, left states: `Ldata[1:] = data + slope*(xf[1:]-xc)`, `Ldata[0] = 0` (np.zeros) -/
def recL (s : Scheme α) (m : Mesh1D α) (d g : ℕ → α) (f : ℕ) : α :=
  if f = 0 then 0 else d (f - 1) + slopeL s g f * (m.xf f - m.xc (f - 1))

/-- `interp_face`, right states: `Rdata[0:-1] = data + slope*(xf[0:-1]-xc)`, `Rdata[n] = 0` -/
def recR (s : Scheme α) (m : Mesh1D α) (d g : ℕ → α) (f : ℕ) : α :=
  if f = m.n then 0 else d f + slopeR s g f * (m.xf f - m.xc f)

variable {ι : Type}

/-- boundary treatment of a 1D discretisation -/
inductive BC1D (α ι : Type) where
  /-- both ends periodic -/
  | periodic
  /-- `namedBC` kernels for the left (`dir = -1`) and right (`dir = +1`) ends, parameters baked in -/
  | open (bcL bcR : (ι → α) → (ι → α))

def BC1D.isPer : BC1D α ι → Bool
  | .periodic => true
  | .open _ _ => false

/-- `calc_bc` on the left-state array -/
def bcFaceL (n : ℕ) (bc : BC1D α ι) (pL pR : ι → ℕ → α) (k : ι) (f : ℕ) : α :=
  if f = 0 then
    match bc with
    | .periodic => pL k n
    | .open bcL _ => bcL (fun j => pR j 0) k
  else pL k f

/-- `calc_bc` on the right-state array -/
def bcFaceR (n : ℕ) (bc : BC1D α ι) (pL pR : ι → ℕ → α) (k : ι) (f : ℕ) : α :=
  if f = n then
    match bc with
    | .periodic => pR k 0
    | .open _ bcR => bcR (fun j => pL j n) k
  else pR k f

/-- `calc_flux`: pointwise numerical flux at every face -/
def faceFlux (Φ : (ι → α) → (ι → α) → (ι → α)) (pL pR : ι → ℕ → α) (k : ι) (f : ℕ) : α :=
  Φ (fun j => pL j f) (fun j => pR j f) k

/-- `calc_res`: `-(F[i+1]-F[i])/dx_i` -/
def calcRes (m : Mesh1D α) (F : ℕ → α) (i : ℕ) : α := -(F (i + 1) - F i) / m.vol i

/-- a source term for one equation: `source[i](mesh.centers(), qdata)` or `None` -/
abbrev Source (α ι : Type) := Option ((ℕ → α) → (ι → ℕ → α) → ℕ → α)

/-- `add_source` -/
def addSource (m : Mesh1D α) (src : ι → Source α ι) (q : ι → ℕ → α) (res : ι → ℕ → α) (k : ι) (i : ℕ) : α :=
  match src k with
  | none => res k i
  | some s => res k i + s m.xc q i

/-- a 1D finite-volume discretisation -/
structure Disc1D (α ι : Type) where
  mesh : Mesh1D α
  scheme : Scheme α
  bc : BC1D α ι
  /-- `model.cons2prim`, pointwise -/
  c2p : (ι → α) → (ι → α)
  /-- `model.numflux(tag, pL, pR)`, pointwise -/
  flux : (ι → α) → (ι → α) → (ι → α)
  /-- `model.source` (all `none` when the model has no sources) -/
  src : ι → Source α ι

namespace Disc1D
variable (D : Disc1D α ι)

def pdata (q : ι → ℕ → α) (k : ι) (i : ℕ) : α := D.c2p (fun j => q j i) k
def grad (q : ι → ℕ → α) (k : ι) : ℕ → α := grad1d D.mesh D.bc.isPer (D.pdata q k)
def pL0 (q : ι → ℕ → α) (k : ι) : ℕ → α := recL D.scheme D.mesh (D.pdata q k) (D.grad q k)
def pR0 (q : ι → ℕ → α) (k : ι) : ℕ → α := recR D.scheme D.mesh (D.pdata q k) (D.grad q k)
def pL (q : ι → ℕ → α) : ι → ℕ → α := bcFaceL D.mesh.n D.bc (D.pL0 q) (D.pR0 q)
def pR (q : ι → ℕ → α) : ι → ℕ → α := bcFaceR D.mesh.n D.bc (D.pL0 q) (D.pR0 q)
def faceFluxes (q : ι → ℕ → α) : ι → ℕ → α := faceFlux D.flux (D.pL q) (D.pR q)
def resNoSrc (q : ι → ℕ → α) (k : ι) : ℕ → α := calcRes D.mesh (D.faceFluxes q k)
/-- `fvm1d.rhs(field)` -/
def rhs (q : ι → ℕ → α) : ι → ℕ → α := addSource D.mesh D.src q (D.resNoSrc q)
end Disc1D

end Flowdyn
