/-
Model of the four slope limiters of `flowdyn/xnum.py:179-199`.

  minmod(a,b)    = where(a*b <= 0, 0, where(a > 0, minimum(a,b), maximum(a,b)))
  vanalbada(a,b) = where(a*b <= 1e-40, 0, p*(a+b)/(a**2+b**2+1e-20))
  vanleer(a,b)   = where(a*b <= 1e-40, 0, 2*p/(|a+b|+1e-20)*sign(a))
  superbee(a,b)  = where(a*b <= 0, 0, where(a>0, minimum(2*minimum(a,b), maximum(a,b)),
                                                  maximum(2*maximum(a,b), minimum(a,b))))

The regularisation literals are parameters (`pmin`, `eps`); the values found in the source are in
`Flowdyn/Generated/Tables.lean` (regenerated on every run).
-/
import Flowdyn.Num

namespace Flowdyn
variable {α : Type} [Field α] [LinearOrder α] [IsStrictOrderedRing α]

/-- `np.sign` -/
def sgn (a : α) : α := if 0 < a then 1 else if a < 0 then -1 else 0

def minmod (a b : α) : α :=
  if a * b ≤ 0 then 0 else if 0 < a then min a b else max a b

def vanalbada (pmin eps : α) (a b : α) : α :=
  if a * b ≤ pmin then 0 else (a * b) * (a + b) / (a ^ 2 + b ^ 2 + eps)

def vanleer (pmin eps : α) (a b : α) : α :=
  if a * b ≤ pmin then 0 else 2 * (a * b) / (|a + b| + eps) * sgn a

def superbee (a b : α) : α :=
  if a * b ≤ 0 then 0
  else if 0 < a then min (2 * min a b) (max a b) else max (2 * max a b) (min a b)

end Flowdyn
