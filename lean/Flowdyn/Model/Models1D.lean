/-
The physical models of `flowdyn/modelphy` packaged for the 1D pipeline: component vectors are
functions `ℕ → α` (component index), kernels are selected by the names the code registers
(`_numfluxdict`, `_bcdict`).
-/
import Flowdyn.Model.FVM1D
import Flowdyn.Model.Kernels.Scalar
import Flowdyn.Model.Kernels.ShallowWater
import Flowdyn.Model.Kernels.Euler

namespace Flowdyn
variable {α : Type} [Field α] [LinearOrder α] [IsStrictOrderedRing α]

def vec1 (x : α) : ℕ → α := fun _ => x
def vec2 (t : α × α) : ℕ → α := fun k => match k with | 0 => t.1 | _ => t.2
def vec3 (t : α × α × α) : ℕ → α := fun k => match k with | 0 => t.1 | 1 => t.2.1 | _ => t.2.2

/-! ### convection / Burgers -/
def convC2P (q : ℕ → α) : ℕ → α := vec1 (1 * q 0)
def convFluxV (a : α) (L R : ℕ → α) : ℕ → α := vec1 (convFlux a (L 0) (R 0))
def burgersC2P (q : ℕ → α) : ℕ → α := q
def burgersFluxV (L R : ℕ → α) : ℕ → α := vec1 (burgersFlux (L 0) (R 0))

/-- boundary conditions available to every model (`base.model`): `dirichlet` returns `param['prim']` -/
def bcDirichlet (prim : ℕ → α) (_w : ℕ → α) : ℕ → α := prim

/-! ### shallow water -/
inductive SwFlux where | centered | rusanov | hll
inductive SwBC (α : Type) where | dirichlet (prim : ℕ → α) | sym | inf

def swC2P (q : ℕ → α) : ℕ → α := vec2 (swCons2prim (q 0) (q 1))
def swBC : SwBC α → (ℕ → α) → (ℕ → α)
  | .dirichlet prim, _ => prim
  | .sym, w => vec2 (swBcSym (w 0) (w 1))
  | .inf, w => vec2 (swBcInf (w 0) (w 1))

/-! ### Euler 1D -/
inductive EulerFlux where | centered | centeredmassflow | hlle | hllc
inductive EulerBC (α : Type) where
  | dirichlet (prim : ℕ → α) | sym | insub (ptot rttot : α) | insub_cbc (ptot rttot : α)
  | insup (ptot rttot p : α) | outsub (p : α) | outsub_qtot (p : α) | outsub_rh (p : α)
  | outsub_nrcbc (p : α) | outsup

def eulerC2P (γ : α) (q : ℕ → α) : ℕ → α := vec3 (eCons2prim γ (q 0) (q 1) (q 2))

/-- nozzle / user sources on conservative data (array-valued in the code; pointwise here) -/
def nozzleSrc (γ : α) (geom : ℕ → α) (k : ℕ) : Source α ℕ :=
  some (fun _xc q i => match k with
    | 0 => nozSrcMass (geom i) (q 0 i) (q 1 i) (q 2 i)
    | 1 => nozSrcMom (geom i) (q 0 i) (q 1 i) (q 2 i)
    | _ => nozSrcEnergy γ (geom i) (q 0 i) (q 1 i) (q 2 i))

variable [HasSqrt α]

def swFluxV (g : α) : SwFlux → (ℕ → α) → (ℕ → α) → (ℕ → α)
  | .centered, L, R => vec2 (swCentered g (L 0) (L 1) (R 0) (R 1))
  | .rusanov, L, R => vec2 (swRusanov g (L 0) (L 1) (R 0) (R 1))
  | .hll, L, R => vec2 (swHll g (L 0) (L 1) (R 0) (R 1))

def eulerFluxV (γ : α) : EulerFlux → (ℕ → α) → (ℕ → α) → (ℕ → α)
  | .centered, L, R => vec3 (eCentered γ (L 0) (L 1) (L 2) (R 0) (R 1) (R 2))
  | .centeredmassflow, L, R => vec3 (eCenteredMassflow γ (L 0) (L 1) (L 2) (R 0) (R 1) (R 2))
  | .hlle, L, R => vec3 (eHlle γ (L 0) (L 1) (L 2) (R 0) (R 1) (R 2))
  | .hllc, L, R => vec3 (eHllc γ (L 0) (L 1) (L 2) (R 0) (R 1) (R 2))

variable [HasRpow α]

/-- `namedBC(name, dir, data, param)` of `euler1d` -/
def eulerBC (γ dir : α) : EulerBC α → (ℕ → α) → (ℕ → α)
  | .dirichlet prim, _ => prim
  | .sym, w => vec3 (eBcSym (w 0) (w 1) (w 2))
  | .insub ptot rttot, w => vec3 (eBcInsub γ dir ptot rttot (w 0) (w 1) (w 2))
  | .insub_cbc ptot rttot, w => vec3 (eBcInsubCbc γ dir ptot rttot (w 0) (w 1) (w 2))
  | .insup ptot rttot p, _ => vec3 (eBcInsup γ dir ptot rttot p)
  | .outsub p, w => vec3 (eBcOutsub p (w 0) (w 1) (w 2))
  | .outsub_qtot p, w => vec3 (eBcOutsubQtot γ dir p (w 0) (w 1) (w 2))
  | .outsub_rh p, w => vec3 (eBcOutsubRh γ dir p (w 0) (w 1) (w 2))
  | .outsub_nrcbc p, w => vec3 (eBcOutsubNrcbc γ dir p (w 0) (w 1) (w 2))
  | .outsup, w => vec3 (eBcOutsup (w 0) (w 1) (w 2))

end Flowdyn
