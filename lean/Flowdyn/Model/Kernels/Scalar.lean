/-
Pointwise kernels of the scalar models: `flowdyn/modelphy/convection.py`, `flowdyn/modelphy/burgers.py`.
-/
import Flowdyn.Num

namespace Flowdyn
variable {α : Type} [Field α] [LinearOrder α] [IsStrictOrderedRing α]

/-! ### linear convection (convection.py:46-57) -/

/-- `numflux`: `a*(L+R)/2 - |a|*(R-L)/2` -/
def convFlux (a L R : α) : α := a * (L + R) / 2 - |a| * (R - L) / 2

/-- physical flux -/
def convPhys (a u : α) : α := a * u

/-- `timestep`: `condition*dx/abs(convcoef)` -/
def convDt (a cfl dx : α) : α := cfl * dx / |a|

/-! ### Burgers (burgers.py:47-73), as repaired: the `else` branch covers `uL+uR = 0` -/

/-- `numflux`: upwind value chosen by the sign of `(uL+uR)/2`.
`tie` is the value returned when `uL + uR = 0` (the pinned code returned 0; the repaired code
returns `uL²/2`, which equals `uR²/2` there). -/
def burgersFluxG (tie : α → α → α) (uL uR : α) : α :=
  let vhalf := (uL + uR) / 2
  if 0 < vhalf then uL ^ 2 / 2 else if vhalf < 0 then uR ^ 2 / 2 else tie uL uR

def burgersFlux (uL uR : α) : α := burgersFluxG (fun l _ => l ^ 2 / 2) uL uR

def burgersPhys (u : α) : α := u ^ 2 / 2

/-- `timestep`: `condition*dx/abs(u)` -/
def burgersDt (cfl dx u : α) : α := cfl * dx / |u|

end Flowdyn
