/-
Pointwise kernels of the 2D Euler model (`euler2d`, euler.py:487-603).
Primitive `(ρ, ux, uy, p)`, conservative `(ρ, mx, my, E)`; face / boundary normal `(nx, ny)`.
-/
import Flowdyn.Num

namespace Flowdyn
variable {α : Type} [Field α] [LinearOrder α] [IsStrictOrderedRing α]

abbrev T4 (α : Type) := α × α × α × α

def e2Kinetic (r mx my : α) : α := 1/2 * (mx ^ 2 + my ^ 2) / r
def e2Pressure (γ r mx my E : α) : α := (γ - 1) * (E - e2Kinetic r mx my)
def e2Cons2prim (γ r mx my E : α) : T4 α := (r, mx / r, my / r, e2Pressure γ r mx my E)
def e2Prim2cons (γ r ux uy p : α) : T4 α :=
  (r, r * ux, r * uy, p / (γ - 1) + 1/2 * r * (ux ^ 2 + uy ^ 2))
def e2VelocityX (r mx : α) : α := mx / r
def e2VelocityY (r my : α) : α := my / r
def e2Rttot (γ r mx my E : α) : α :=
  let ec := e2Kinetic r mx my
  ((E - ec) * γ + ec) / r / γ * (γ - 1)
def e2Htot (γ r mx my E : α) : α :=
  let ec := e2Kinetic r mx my
  ((E - ec) * γ + ec) / r
/-- enthalpy as the property defines it, `γ/(γ-1) p/ρ`, on conservative data (repaired code) -/
def e2Enthalpy (γ r mx my E : α) : α := (E - e2Kinetic r mx my) * γ / r

/-- physical flux through a face of normal `(nx, ny)` -/
def e2Phys (γ nx ny r ux uy p : α) : T4 α :=
  let un := ux * nx + uy * ny
  let H := γ * p / r / (γ - 1) + 1/2 * (ux ^ 2 + uy ^ 2)
  (r * un, r * un * ux + p * nx, r * un * uy + p * ny, r * un * H)

def e2Centered (γ nx ny rL uxL uyL pL rR uxR uyR pR : α) : T4 α :=
  let unL := uxL * nx + uyL * ny
  let unR := uxR * nx + uyR * ny
  let HL := γ * pL / rL / (γ - 1) + 1/2 * (uxL ^ 2 + uyL ^ 2)
  let HR := γ * pR / rR / (γ - 1) + 1/2 * (uxR ^ 2 + uyR ^ 2)
  (1/2 * (rL * unL + rR * unR),
   1/2 * ((rL * unL) * uxL + pL * nx + (rR * unR) * uxR + pR * nx),
   1/2 * ((rL * unL) * uyL + pL * ny + (rR * unR) * uyR + pR * ny),
   1/2 * ((rL * unL * HL) + (rR * unR * HR)))

/-- `bc_sym`: `V - 2 (V·n) n` -/
def e2BcSym (nx ny r ux uy p : α) : T4 α :=
  let vn := ux * nx + uy * ny
  (r, ux - 2 * (vn * nx), uy - 2 * (vn * ny), p)
def e2BcOutsub (pext r ux uy _p : α) : T4 α := (r, ux, uy, pext)
def e2BcOutsup (r ux uy p : α) : T4 α := (r, ux, uy, p)

variable [HasSqrt α]

def e2VelocityMag (r mx my : α) : α := HasSqrt.sqrt (mx ^ 2 + my ^ 2) / r
def e2Asound (γ r mx my E : α) : α := HasSqrt.sqrt (γ * e2Pressure γ r mx my E / r)
def e2Mach (γ r mx my E : α) : α :=
  let rhoU := HasSqrt.sqrt (mx ^ 2 + my ^ 2)
  rhoU / HasSqrt.sqrt (γ * ((γ - 1) * (r * E - 1/2 * rhoU ^ 2)))

def e2Hlle (γ nx ny rL uxL uyL pL rR uxR uyR pR : α) : T4 α :=
  let cL2 := γ * pL / rL
  let cR2 := γ * pR / rR
  let unL := uxL * nx + uyL * ny
  let unR := uxR * nx + uyR * ny
  let HL := cL2 / (γ - 1) + 1/2 * (uxL ^ 2 + uyL ^ 2)
  let HR := cR2 / (γ - 1) + 1/2 * (uxR ^ 2 + uyR ^ 2)
  let etL := HL - pL / rL
  let etR := HR - pR / rR
  let Rrho := HasSqrt.sqrt (rR / rL)
  let tmp := 1 / (1 + Rrho)
  let unRoe := tmp * (unL + unR * Rrho)
  let uxRoe := tmp * (uxL + uxR * Rrho)
  let uyRoe := tmp * (uyL + uyR * Rrho)
  let hRoe := tmp * (HL + HR * Rrho)
  let cRoe := HasSqrt.sqrt ((hRoe - 1/2 * (uxRoe ^ 2 + uyRoe ^ 2)) * (γ - 1))
  let sL := min 0 (min (unRoe - cRoe) (unL - HasSqrt.sqrt cL2))
  let sR := max 0 (max (unRoe + cRoe) (unR + HasSqrt.sqrt cR2))
  ((sR * rL * unL - sL * rR * unR + sL * sR * (rR - rL)) / (sR - sL),
   (sR * ((rL * unL) * uxL + pL * nx) - sL * ((rR * unR) * uxR + pR * nx)
      + sL * sR * (rR * uxR - rL * uxL)) / (sR - sL),
   (sR * ((rL * unL) * uyL + pL * ny) - sL * ((rR * unR) * uyR + pR * ny)
      + sL * sR * (rR * uyR - rL * uyL)) / (sR - sL),
   (sR * (rL * unL * HL) - sL * (rR * unR * HR) + sL * sR * (rR * etR - rL * etL)) / (sR - sL))

/-- `timestep` on conservative data, `Vmag = sqrt(mx²+my²)/ρ` -/
def e2Dt (γ cfl dx r mx my E : α) : α :=
  let V := HasSqrt.sqrt (mx ^ 2 + my ^ 2) / r
  cfl * dx / (V + HasSqrt.sqrt (γ * (γ - 1) * (E / r - 1/2 * V ^ 2)))

variable [HasRpow α]

def e2Ptot (γ r mx my E : α) : α :=
  e2Pressure γ r mx my E * HasRpow.rpow (1 + 1/2 * (γ - 1) * (e2Mach γ r mx my E) ^ 2) (γ / (γ - 1))
def e2Entropy [HasLog α] (γ r mx my E : α) : α :=
  HasLog.log (e2Pressure γ r mx my E / HasRpow.rpow r γ) / (γ - 1)

/-- `bc_insub`: velocity `-sqrt(γ p m2/ρ) * n` -/
def e2BcInsub (γ nx ny ptot rttot _r _ux _uy p : α) : T4 α :=
  let gmu := γ - 1
  let m2 := max 0 ((HasRpow.rpow (ptot / p) (gmu / γ) - 1) * 2 / gmu)
  let rh := ptot / rttot / HasRpow.rpow (1 + 1/2 * gmu * m2) (1 / gmu)
  let v := -HasSqrt.sqrt (γ * p * m2 / rh)
  (rh, v * nx, v * ny, p)

/-- `bc_insup` with inflow direction `(dx, dy)` (`-n` when no angle is given, else `(cos, sin)`) -/
def e2BcInsup (γ dx dy ptot rttot pin : α) : T4 α :=
  let gmu := γ - 1
  let m2 := max 0 ((HasRpow.rpow (ptot / pin) (gmu / γ) - 1) * 2 / gmu)
  let rh := ptot / rttot / HasRpow.rpow (1 + 1/2 * gmu * m2) (1 / gmu)
  let v := HasSqrt.sqrt (γ * pin * m2 / rh)
  (rh, v * dx, v * dy, pin)

end Flowdyn
