/-
Pointwise kernels of `flowdyn/modelphy/shallowwater.py`.
Primitive variables `(h, u)`, conservative `(h, q = h u)`.
-/
import Flowdyn.Num

namespace Flowdyn
variable {α : Type} [Field α] [LinearOrder α] [IsStrictOrderedRing α]

/-- `cons2prim`: `(h, q/h)` -/
def swCons2prim (h q : α) : α × α := (h, q / h)
/-- `prim2cons`: `(h, h*u)` -/
def swPrim2cons (h u : α) : α × α := (h, h * u)

/-- named variables on conservative data -/
def swHeight (h _q : α) : α := h
def swMassflow (_h q : α) : α := q
def swVelocity (h q : α) : α := q / h

/-- physical flux of the primitive state -/
def swPhys (g h u : α) : α × α := (h * u, h * u ^ 2 + g * h ^ 2 / 2)

/-- `numflux_centeredflux` (shallowwater.py:90-104) -/
def swCentered (g hL uL hR uR : α) : α × α :=
  (1/2 * (hL * uL + hR * uR),
   1/2 * ((hL * uL ^ 2 + 1/2 * g * hL ^ 2) + (hR * uR ^ 2 + 1/2 * g * hR ^ 2)))

variable [HasSqrt α]

/-- `numflux_rusanov` (shallowwater.py:106-124).  `pw` is the exponent applied to `uR` in the right
momentum flux `qR*uR**pw`: the pinned code has `2` (an inconsistent `h u³`), the repaired code `1`. -/
def swRusanovG (pw : ℕ) (g hL uL hR uR : α) : α × α :=
  let cL := HasSqrt.sqrt (g * hL)
  let cR := HasSqrt.sqrt (g * hR)
  let cmax := max (|uL| + cL) (|uR| + cR)
  let qL := hL * uL
  let qR := hR * uR
  (1/2 * (qL + qR) - 1/2 * cmax * (hR - hL),
   1/2 * ((qL * uL + 1/2 * g * hL ^ 2) + (qR * uR ^ pw + 1/2 * g * hR ^ 2)) - 1/2 * cmax * (qR - qL))

def swRusanov (g hL uL hR uR : α) : α × α := swRusanovG 1 g hL uL hR uR

/-- `numflux_hll` (shallowwater.py:126-143) -/
def swHll (g hL uL hR uR : α) : α × α :=
  let cL := HasSqrt.sqrt (g * hL)
  let cR := HasSqrt.sqrt (g * hR)
  let sL := min 0 (min (uL - cL) (uR - cR))
  let sR := max 0 (max (uL + cL) (uR + cR))
  let kL := sR / (sR - sL)
  let kR := -sL / (sR - sL)
  let qL := hL * uL
  let qR := hR * uR
  (kL * qL + kR * qR - kR * sR * (hR - hL),
   kL * (qL * uL + 1/2 * g * hL ^ 2) + kR * (qR * uR + 1/2 * g * hR ^ 2) - kR * sR * (qR - qL))

/-- `timestep` on conservative data: `cfl*dx/(|q/h| + sqrt(g h))` -/
def swDt (g cfl dx h q : α) : α := cfl * dx / (|q / h| + HasSqrt.sqrt (g * h))

/-- `bc_sym`: `(h, -u)`;  `bc_inf`: `(h, u)` -/
def swBcSym (h u : α) : α × α := (h, -u)
def swBcInf (h u : α) : α × α := (h, u)

end Flowdyn
