/-
Pointwise kernels of `flowdyn/modelphy/euler.py` (1D): variable conversions, named variables,
numerical fluxes, time step, boundary states, nozzle geometric sources.
Primitive `(ρ, u, p)`, conservative `(ρ, m = ρu, E)`.
-/
import Flowdyn.Num

namespace Flowdyn
variable {α : Type} [Field α] [LinearOrder α] [IsStrictOrderedRing α]

/-- triple as returned by the python kernels (lists of three arrays) -/
abbrev T3 (α : Type) := α × α × α

/-! ### conversions and rational named variables (euler.py:51-123) -/

def eKinetic (r m : α) : α := 1/2 * m ^ 2 / r
def ePressure (γ r m E : α) : α := (γ - 1) * (E - eKinetic r m)
def eCons2prim (γ r m E : α) : T3 α := (r, m / r, ePressure γ r m E)
def ePrim2cons (γ r u p : α) : T3 α := (r, r * u, p / (γ - 1) + 1/2 * r * u ^ 2)
def eDensity (r _m _E : α) : α := r
def eVelocity (r m : α) : α := m / r
def eVelocityMag (r m : α) : α := |m| / r
def eEnthalpy (γ r m E : α) : α := (E - 1/2 * m ^ 2 / r) * γ / r
def eRttot (γ r m E : α) : α :=
  let ec := eKinetic r m
  ((E - ec) * γ + ec) / r / γ * (γ - 1)
def eHtot (γ r m E : α) : α :=
  let ec := eKinetic r m
  ((E - ec) * γ + ec) / r
def eMassflow (_r m _E : α) : α := m

/-- physical flux of the primitive state -/
def ePhys (γ r u p : α) : T3 α :=
  let H := γ * p / r / (γ - 1) + 1/2 * u ^ 2
  (r * u, r * u ^ 2 + p, r * u * H)

/-! ### centered fluxes (euler.py:140-187) -/

def eCentered (γ rL uL pL rR uR pR : α) : T3 α :=
  let HL := γ * pL / rL / (γ - 1) + 1/2 * uL ^ 2
  let HR := γ * pR / rR / (γ - 1) + 1/2 * uR ^ 2
  (1/2 * (rL * uL + rR * uR),
   1/2 * ((rL * uL ^ 2 + pL) + (rR * uR ^ 2 + pR)),
   1/2 * ((rL * uL * HL) + (rR * uR * HR)))

def eCenteredMassflow (γ rL uL pL rR uR pR : α) : T3 α :=
  let HL := γ * pL / rL / (γ - 1) + 1/2 * uL ^ 2
  let HR := γ * pR / rR / (γ - 1) + 1/2 * uR ^ 2
  let Frho := 1/2 * (rL * uL + rR * uR)
  (Frho, 1/2 * (Frho * (uL + uR) + pL + pR), 1/2 * Frho * (HL + HR))

/-! ### nozzle (euler.py:463-482): geometric term and sources on conservative data -/

/-- `geomterm_i = 1/A(xc_i) * (A(xf_{i+1}) - A(xf_i)) / (xf_{i+1} - xf_i)` -/
def nozGeom (A : α → α) (xc xl xr : α) : α := 1 / A xc * (A xr - A xl) / (xr - xl)

def nozSrcMass (g _r m _E : α) : α := (-g) * m
def nozSrcMom (g r m _E : α) : α := (-g) * m ^ 2 / r
def nozSrcEnergy (γ g r m E : α) : α :=
  let ec := 1/2 * m ^ 2 / r
  (-g) * m * ((E - ec) * γ + ec) / r

variable [HasSqrt α]

/-! ### irrational named variables -/

def eAsound (γ r m E : α) : α := HasSqrt.sqrt (γ * ePressure γ r m E / r)
/-- `mach` of the 1D model (euler.py:98-100): signed, `m / sqrt(γ(γ-1)(ρE - m²/2))` -/
def eMach (γ r m E : α) : α := m / HasSqrt.sqrt (γ * ((γ - 1) * (r * E - 1/2 * m ^ 2)))

/-! ### Roe average and the HLLE / HLLC fluxes (euler.py:125-297) -/

/-- `_Roe_average`: returns `(uRoe, cRoe)` -/
def eRoe (γ rL uL HL rR uR HR : α) : α × α :=
  let Rrho := HasSqrt.sqrt (rR / rL)
  let tmp := 1 / (1 + Rrho)
  let uRoe := tmp * (uL + uR * Rrho)
  let hRoe := tmp * (HL + HR * Rrho)
  (uRoe, HasSqrt.sqrt ((hRoe - 1/2 * uRoe ^ 2) * (γ - 1)))

def eHlle (γ rL uL pL rR uR pR : α) : T3 α :=
  let cL2 := γ * pL / rL
  let cR2 := γ * pR / rR
  let HL := cL2 / (γ - 1) + 1/2 * uL ^ 2
  let HR := cR2 / (γ - 1) + 1/2 * uR ^ 2
  let eL := HL - pL / rL
  let eR := HR - pR / rR
  let roe := eRoe γ rL uL HL rR uR HR
  let sL := min 0 (min (roe.1 - roe.2) (uL - HasSqrt.sqrt cL2))
  let sR := max 0 (max (roe.1 + roe.2) (uR + HasSqrt.sqrt cR2))
  ((sR * rL * uL - sL * rR * uR + sL * sR * (rR - rL)) / (sR - sL),
   (sR * (rL * uL ^ 2 + pL) - sL * (rR * uR ^ 2 + pR) + sL * sR * (rR * uR - rL * uL)) / (sR - sL),
   (sR * (rL * uL * HL) - sL * (rR * uR * HR) + sL * sR * (rR * eR - rL * eL)) / (sR - sL))

def eHllc (γ rL uL pL rR uR pR : α) : T3 α :=
  let cL2 := γ * pL / rL
  let cR2 := γ * pR / rR
  let HL := cL2 / (γ - 1) + 1/2 * uL ^ 2
  let HR := cR2 / (γ - 1) + 1/2 * uR ^ 2
  let eL := HL - pL / rL
  let eR := HR - pR / rR
  let roe := eRoe γ rL uL HL rR uR HR
  let sL := min (roe.1 - roe.2) (uL - HasSqrt.sqrt cL2)
  let sR := max (roe.1 + roe.2) (uR + HasSqrt.sqrt cR2)
  let sM := (pL - pR - rL * uL * (sL - uL) + rR * uR * (sR - uR)) / (rR * (sR - uR) - rL * (sL - uL))
  let pStar := rR * (uR - sR) * (uR - sM) + pR
  let SmoSSm := if 0 ≤ sM then sM / (sL - sM) else sM / (sR - sM)
  let SmUoSSm := if 0 ≤ sM then (sL - uL) / (sL - sM) else (sR - uR) / (sR - sM)
  let Frho :=
    if 0 ≤ sM then (if 0 ≤ sL then rL * uL else rL * sM * SmUoSSm)
    else (if sR ≤ 0 then rR * uR else rR * sM * SmUoSSm)
  let Frhou :=
    if 0 ≤ sM then (if 0 ≤ sL then Frho * uL + pL else Frho * uL + (pStar - pL) * SmoSSm + pStar)
    else (if sR ≤ 0 then Frho * uR + pR else Frho * uR + (pStar - pR) * SmoSSm + pStar)
  let FrhoE :=
    if 0 ≤ sM then (if 0 ≤ sL then rL * HL * uL
                    else Frho * eL + (pStar * sM - pL * uL) * SmoSSm + pStar * sM)
    else (if sR ≤ 0 then rR * HR * uR
          else Frho * eR + (pStar * sM - pR * uR) * SmoSSm + pStar * sM)
  (Frho, Frhou, FrhoE)

/-- `timestep` on conservative data (euler.py:299-306), `Vmag = |m|/ρ` -/
def eDt (γ cfl dx r m E : α) : α :=
  let V := |m| / r
  cfl * dx / (V + HasSqrt.sqrt (γ * (γ - 1) * (E / r - 1/2 * V ^ 2)))

/-! ### boundary states, `dir = -1` (left) or `+1` (right)  (euler.py:339-430) -/

def eBcSym (r u p : α) : T3 α := (r, -u, p)
def eBcOutsub (pext r u _p : α) : T3 α := (r, u, pext)
def eBcOutsup (r u p : α) : T3 α := (r, u, p)

/-- `bc_outsub_rh`: state behind a shock of pressure ratio `pext/p` -/
def eBcOutsubRh (γ dir pext r u p : α) : T3 α :=
  let gmu := γ - 1
  let pratio := pext / p
  let Ms2 := 1 + (pratio - 1) * (γ + 1) / (2 * γ)
  let rhoratio := ((γ + 1) * Ms2) / (2 + gmu * Ms2)
  let Ws := u - dir * HasSqrt.sqrt (γ * p / r * Ms2)
  (r * rhoratio, Ws + (u - Ws) / rhoratio, pext)

variable [HasRpow α]

def eEntropy [HasLog α] (γ r m E : α) : α :=
  HasLog.log (ePressure γ r m E / HasRpow.rpow r γ) / (γ - 1)
def ePtot (γ r m E : α) : α :=
  ePressure γ r m E * HasRpow.rpow (1 + 1/2 * (γ - 1) * (eMach γ r m E) ^ 2) (γ / (γ - 1))

/-- `bc_insub`: total pressure / total temperature imposed, interior pressure kept -/
def eBcInsub (γ dir ptot rttot _r _u p : α) : T3 α :=
  let gmu := γ - 1
  let m2 := max 0 ((HasRpow.rpow (ptot / p) (gmu / γ) - 1) * 2 / gmu)
  let rh := ptot / rttot / HasRpow.rpow (1 + 1/2 * gmu * m2) (1 / gmu)
  (rh, -dir * HasSqrt.sqrt (γ * m2 * p / rh), p)

/-- `bc_insup`: totals and static pressure imposed -/
def eBcInsup (γ dir ptot rttot pin : α) : T3 α :=
  let gmu := γ - 1
  let m2 := max 0 ((HasRpow.rpow (ptot / pin) (gmu / γ) - 1) * 2 / gmu)
  let rh := ptot / rttot / HasRpow.rpow (1 + 1/2 * gmu * m2) (1 / gmu)
  (rh, -dir * HasSqrt.sqrt (γ * m2 * pin / rh), pin)

/-- `bc_insub_cbc`: totals imposed, outgoing Riemann invariant kept -/
def eBcInsubCbc (γ dir ptot rttot r u p : α) : T3 α :=
  let gmu := γ - 1
  let invcm := u + dir * 2 * HasSqrt.sqrt (γ * p / r) / gmu
  let adiscri := γ * (γ + 1) / gmu * rttot - 1/2 * gmu * invcm ^ 2
  let a1 := (dir * invcm + HasSqrt.sqrt adiscri) * gmu / (γ + 1)
  let u1 := invcm - dir * 2 * a1 / gmu
  let f := 1 + 1/2 * gmu * (u1 / a1) ^ 2
  (ptot / rttot / HasRpow.rpow f (1 / gmu), u1, ptot / HasRpow.rpow f (γ / gmu))

/-- `bc_outsub_qtot`: interior total pressure/temperature kept, static pressure imposed -/
def eBcOutsubQtot (γ dir pext r u p : α) : T3 α :=
  let gmu := γ - 1
  let m2i := u ^ 2 / (γ * p / r)
  let fm2 := 1 + 1/2 * gmu * m2i
  let rttot := p / r * fm2
  let ptot := p * HasRpow.rpow fm2 (γ / gmu)
  let m2 := max 0 ((HasRpow.rpow (ptot / pext) (gmu / γ) - 1) * 2 / gmu)
  let rho := ptot / rttot / HasRpow.rpow (1 + 1/2 * gmu * m2) (1 / gmu)
  (rho, dir * HasSqrt.sqrt (γ * m2 * pext / rho), pext)

/-- `bc_outsub_nrcbc`: entropy and outgoing invariant kept, pressure imposed -/
def eBcOutsubNrcbc (γ dir pext r u p : α) : T3 α :=
  let gmu := γ - 1
  let rho1 := r * HasRpow.rpow (pext / p) (1 / γ)
  let a0 := HasSqrt.sqrt (γ * p / r)
  let a1 := HasSqrt.sqrt (γ * pext / rho1)
  (rho1, u + dir * 2 / gmu * (a1 - a0), pext)

end Flowdyn
