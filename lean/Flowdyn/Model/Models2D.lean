/-
The 2D Euler model packaged for the 2D pipeline: components `0..3 = ρ, ux, uy, p` (primitive) /
`ρ, mx, my, E` (conservative).
-/
import Flowdyn.Model.FVM2D
import Flowdyn.Model.Kernels.Euler2D

namespace Flowdyn
variable {α : Type} [Field α] [LinearOrder α] [IsStrictOrderedRing α]

def vec4 (t : α × α × α × α) : ℕ → α := fun k => match k with | 0 => t.1 | 1 => t.2.1 | 2 => t.2.2.1 | _ => t.2.2.2

def euler2dC2P (γ : α) (q : ℕ → α) : ℕ → α := vec4 (e2Cons2prim γ (q 0) (q 1) (q 2) (q 3))

inductive Euler2DFlux where | centered | hlle
inductive Euler2DBC (α : Type) where
  | dirichlet (prim : ℕ → α) | sym | insub (ptot rttot : α) | insup (ptot rttot p : α) (dir : Option (α × α))
  | outsub (p : α) | outsup

variable [HasSqrt α]

def euler2dFluxV (γ : α) : Euler2DFlux → α → α → (ℕ → α) → (ℕ → α) → (ℕ → α)
  | .centered, nx, ny, L, R => vec4 (e2Centered γ nx ny (L 0) (L 1) (L 2) (L 3) (R 0) (R 1) (R 2) (R 3))
  | .hlle, nx, ny, L, R => vec4 (e2Hlle γ nx ny (L 0) (L 1) (L 2) (L 3) (R 0) (R 1) (R 2) (R 3))

variable [HasRpow α]

/-- `namedBC(name, normal, data, param)` of `euler2d`, outward normal `(nx, ny)` -/
def euler2dBC (γ nx ny : α) : Euler2DBC α → (ℕ → α) → (ℕ → α)
  | .dirichlet prim, _ => prim
  | .sym, w => vec4 (e2BcSym nx ny (w 0) (w 1) (w 2) (w 3))
  | .insub ptot rttot, w => vec4 (e2BcInsub γ nx ny ptot rttot (w 0) (w 1) (w 2) (w 3))
  | .insup ptot rttot p none, _ => vec4 (e2BcInsup γ (-nx) (-ny) ptot rttot p)
  | .insup ptot rttot p (some d), _ => vec4 (e2BcInsup γ d.1 d.2 ptot rttot p)
  | .outsub p, w => vec4 (e2BcOutsub p (w 0) (w 1) (w 2) (w 3))
  | .outsup, w => vec4 (e2BcOutsup (w 0) (w 1) (w 2) (w 3))

end Flowdyn
