/-
Model of the driver `timemodel.solve / restart / _solve` (integration.py:229-313, as repaired) as an
explicit state machine.

  σ   hidden state of the solver object that survives a call (gear's `_lastresidual`, cached Jacobian)
  V   field data,  D  time-step value handed to `step` (a scalar or a per-cell array)

The integrator is an arbitrary `step : σ → D → α → V → σ × α × V` (new hidden state, new time, new
data).  A snapshot is computed by a *side step* from a copy of the current state; afterwards the
solver keeps `keep s s'` (`s` before, `s'` after the side step) — the repaired code restores the
multistep memory, so `keep s s' = s` for every integrator without a Jacobian cache.
-/
import Flowdyn.Num

namespace Flowdyn
variable {σ α V D : Type} [LinearOrder α] [Add α] [Sub α]

/-- a stored field `(time, it, data)` -/
structure Snap (α V : Type) where
  time : α
  it : Int
  data : V

/-- everything `_solve` is given -/
structure DrvCfg (σ α V D : Type) where
  step : σ → D → α → V → σ × α × V
  keep : σ → σ → σ
  /-- `modeldisc.calc_timestep(Qn, condition)` -/
  calcDt : α → V → D
  /-- `min(dtloc)` -/
  minDt : D → α
  /-- a scalar step as a `D` -/
  scalar : α → D
  /-- directive `dtlocal` -/
  dtlocal : Bool
  /-- stopping criteria (after merging the default `tottime = tsave[-1]` with `stop`) -/
  tottime : Option α
  maxit : Option ℕ
  tsave : List α
  /-- `_itstart` (0 for `solve`, `max(f.it, 0)` for `restart`) -/
  itstart : ℕ
  /-- monitors: frequency and value function of the current state -/
  monitors : List (ℕ × (α → V → α))

/-- loop state of `_solve` -/
structure DrvState (σ α V : Type) where
  sol : σ
  time : α
  data : V
  nit : ℕ
  isave : ℕ
  results : List (Snap α V)
  /-- one log per monitor: `(it, time, value)` -/
  monlog : List (List (ℕ × α × α))
  /-- states `(time, data)` after each full step, most recent first (ghost: not in the code) -/
  traj : List (α × V)

variable (c : DrvCfg σ α V D)

/-- `_check_end` -/
def DrvCfg.checkEnd (st : DrvState σ α V) : Bool :=
  (match c.tottime with | some T => decide (T ≤ st.time) | none => false)
  || (match c.maxit with | some m => decide (m ≤ st.nit) | none => false)

/-- `_parse_monitors`: a monitor records when `totnit % frequency == 0` -/
def DrvCfg.parseMonitors (st : DrvState σ α V) : DrvState σ α V :=
  let tot := c.itstart + st.nit
  { st with monlog := (c.monitors.zip st.monlog).map fun ml =>
      if tot % ml.1.1 = 0 then ml.2 ++ [(tot, st.time, ml.1.2 st.time st.data)] else ml.2 }

/-- skip the save times strictly before the start time -/
def skipPast (t : α) : List α → ℕ → ℕ
  | [], i => i
  | ts :: rest, i => if ts < t then skipPast t rest (i + 1) else i

/-- save times equal to the start time: the initial state -/
def DrvCfg.initialSnaps (st : DrvState σ α V) : ℕ → DrvState σ α V
  | 0 => st
  | fuel + 1 =>
    match c.tsave[st.isave]? with
    | some ts => if ts = st.time then
        DrvCfg.initialSnaps { st with results := st.results ++ [⟨st.time, (c.itstart + st.nit : ℕ), st.data⟩],
                                      isave := st.isave + 1 } fuel
      else st
    | none => st

/-- all pending save times within the current step: each by its own side step from the current state -/
def DrvCfg.sideSnaps (mindt : α) (st : DrvState σ α V) : ℕ → DrvState σ α V
  | 0 => st
  | fuel + 1 =>
    match c.tsave[st.isave]? with
    | some ts =>
      if ts ≤ st.time + mindt then
        if st.time < ts then
          let r := c.step st.sol (c.scalar (ts - st.time)) st.time st.data
          DrvCfg.sideSnaps mindt { st with sol := c.keep st.sol r.1,
                                           results := st.results ++ [⟨r.2.1, (c.itstart + st.nit : ℕ), r.2.2⟩],
                                           isave := st.isave + 1 } fuel
        else
          DrvCfg.sideSnaps mindt { st with results := st.results ++ [⟨st.time, (c.itstart + st.nit : ℕ), st.data⟩],
                                           isave := st.isave + 1 } fuel
      else st
    | none => st

/-- one pass of the main loop (the caller has checked `¬ checkEnd`) -/
def DrvCfg.iteration (st : DrvState σ α V) : DrvState σ α V :=
  let dt := c.calcDt st.time st.data
  let m := c.minDt dt
  let st1 := c.sideSnaps m st (c.tsave.length + 1)
  let r := c.step st1.sol (if c.dtlocal then dt else c.scalar m) st1.time st1.data
  let st2 : DrvState σ α V := { st1 with sol := r.1, time := r.2.1, data := r.2.2, nit := st1.nit + 1,
                                         traj := (r.2.1, r.2.2) :: st1.traj }
  let st3 := c.parseMonitors st2
  if c.checkEnd st3 ∧ st3.results.isEmpty then
    { st3 with results := [⟨st3.time, (c.itstart + st3.nit : ℕ), st3.data⟩] }
  else st3

/-- main loop with fuel; returns the state and whether the loop terminated by a stop criterion -/
def DrvCfg.loop : ℕ → DrvState σ α V → DrvState σ α V × Bool
  | 0, st => (st, c.checkEnd st)
  | fuel + 1, st => if c.checkEnd st then (st, true) else DrvCfg.loop fuel (c.iteration st)

/-- `_solve(f, …)` from hidden state `s0` and field `(t0, q0)` -/
def DrvCfg.run (fuel : ℕ) (s0 : σ) (t0 : α) (q0 : V) : DrvState σ α V × Bool :=
  let st0 : DrvState σ α V := { sol := s0, time := t0, data := q0, nit := 0, isave := 0, results := [],
                                 monlog := c.monitors.map (fun _ => []), traj := [(t0, q0)] }
  let st1 := c.parseMonitors st0
  let st2 := { st1 with isave := skipPast t0 c.tsave 0 }
  let st3 := c.initialSnaps st2 (c.tsave.length + 1)
  c.loop fuel st3

end Flowdyn
