/-
Model of the implicit integrators of `flowdyn/integration.py:565-735` (as repaired).

Unknowns are flattened into `Fin N → α` (the code uses cell-major order with the equation as fast
index; the order is irrelevant for what follows).  The space operator at a given time is
`R : Vec → Vec`.

  calc_jacobian   column j = (R(q + eps_j e_j) - R(q)) / eps_j          (finite differences)
  solve_implicit  mat = (1+xi) diag(1/dt) - theta J ;  x = solve(mat, R(q) + xi*last) ; residual = x/dt
  add_res         q += dt * residual ;  time += min(dt)
  implicit        theta = 1,   xi = 0
  trapezoidal     theta = 1/2, xi = 0
  gear            first step (no memory): trapezoidal; then theta = 1, xi = 1/2 with last = previous residual

`np.linalg.solve` is a parameter `solve` (trusted to return a solution of the system; the executable
model uses exact Gaussian elimination).
-/
import Flowdyn.Num
import Mathlib.Data.Matrix.Mul

namespace Flowdyn
variable {α : Type} [Field α] {N : ℕ}

abbrev Vec (α : Type) (N : ℕ) := Fin N → α
abbrev Mat (α : Type) (N : ℕ) := Matrix (Fin N) (Fin N) α

/-- finite-difference Jacobian of `R` at `q` with perturbations `eps` -/
def fdJac (R : Vec α N → Vec α N) (q : Vec α N) (eps : Vec α N) : Mat α N :=
  fun i j => (R (fun l => if l = j then q l + eps j else q l) i - R q i) / eps j

/-- system matrix `(1+xi) diag(1/dt) - theta J` -/
def sysMat (θ ξ : α) (J : Mat α N) (dtv : Vec α N) : Mat α N :=
  fun i j => (if i = j then (1 + ξ) * (1 / dtv i) else 0) - θ * J i j

structure ImplOut (α : Type) (N : ℕ) where
  time : α
  data : Vec α N
  /-- `self.residual` after `solve_implicit` (what `gear` memorises) -/
  incr : Vec α N

/-- one θ/ξ step with a given Jacobian `J`; `dtv` the per-unknown time step, `dtm = min(dt)` -/
def thetaStep (solve : Mat α N → Vec α N → Vec α N) (θ ξ : α) (J : Mat α N) (R : Vec α N → Vec α N)
    (dtv : Vec α N) (dtm : α) (last : Vec α N) (t : α) (q : Vec α N) : ImplOut α N :=
  let r := R q
  let x := solve (sysMat θ ξ J dtv) (fun i => r i + ξ * last i)
  { time := t + dtm * 1, data := fun i => q i + dtv i * (x i / dtv i), incr := fun i => x i / dtv i }

/-- `implicit.step` (Jacobian recomputed at `q`) -/
def implicitStep (solve : Mat α N → Vec α N → Vec α N) (R : Vec α N → Vec α N) (eps dtv : Vec α N)
    (dtm t : α) (q : Vec α N) : ImplOut α N :=
  thetaStep solve 1 0 (fdJac R q eps) R dtv dtm (fun _ => 0) t q

/-- `trapezoidal.step` / `cranknicolson` -/
def trapezoidalStep (solve : Mat α N → Vec α N → Vec α N) (R : Vec α N → Vec α N) (eps dtv : Vec α N)
    (dtm t : α) (q : Vec α N) : ImplOut α N :=
  thetaStep solve (1/2) 0 (fdJac R q eps) R dtv dtm (fun _ => 0) t q

/-- `gear.step`: memory `last : Option Vec` is the solver attribute `_lastresidual` -/
def gearStep (solve : Mat α N → Vec α N → Vec α N) (R : Vec α N → Vec α N) (eps dtv : Vec α N)
    (dtm t : α) (last : Option (Vec α N)) (q : Vec α N) : ImplOut α N :=
  match last with
  | none => trapezoidalStep solve R eps dtv dtm t q
  | some l => thetaStep solve 1 (1/2) (fdJac R q eps) R dtv dtm l t q

end Flowdyn
