/-
Model of the explicit time integrators of `flowdyn/integration.py`.

A field is a pair `(time, data)`; `data : V` lives in an arbitrary `α`-module `V`; the space operator
is an arbitrary function `R : α → V → V` of (time, data) -- `modeldisc.rhs(field)` receives the field
object, hence both.  `add_res(f, dt, c)` is `f.time += min(dt)*c ; f.data += dt*residual`.
For a scalar `dt` the scaling is `dt • ·` and `min(dt) = dt`; for a local (per cell) time step array
the scaling is the pointwise product, an arbitrary additive map `sc : V → V`, and `dtm = min(dt)`.
All loops are written for the general `(dtm, sc)`; the scalar versions are the specialisations.

  explicit.step            integration.py:373-385
  rkmodel.step             integration.py:422-448   (generic Butcher loop)
  rk2.step                 integration.py:454-470   (midpoint)
  LSrkmodelHH.step         integration.py:529-546   (Hu-Hussaini low storage)
-/
import Flowdyn.Num
import Mathlib.Algebra.Module.Defs
import Mathlib.Algebra.BigOperators.Group.List.Basic

namespace Flowdyn
variable {α : Type} [Field α] {V : Type} [AddCommGroup V] [Module α V]

/-- state of a stage loop: trace of the `(time, data)` pairs presented to `rhs`, current field -/
structure StepOut (α V : Type) where
  /-- arguments `(time, data)` of the successive `rhs` evaluations, in call order -/
  calls : List (α × V)
  time  : α
  data  : V

/-- `explicit.step` -/
def explicitStepG (R : α → V → V) (dtm : α) (sc : V → V) (t : α) (q : V) : StepOut α V :=
  { calls := [(t, q)], time := t + dtm * 1, data := q + sc (R t q) }

/-- aggregate residual of the Butcher loop for one row:
`residual = row[-1]*R_s + Σ_{i < len(row)-1} row[i]*prhs[i]` -/
def rkAggregate (row : List α) (prhs : List V) (r : V) : V :=
  (row.getLast?.getD 0) • r + ((row.dropLast.zip prhs).map (fun ck => ck.1 • ck.2)).sum

/-- loop state of `rkmodel.step`: stored residuals `prhs`, calls so far, current `pfield` -/
structure RkState (α V : Type) where
  prhs  : List V
  calls : List (α × V)
  time  : α
  data  : V

/-- one pass of the `for s, pcoef in enumerate(self._butcher)` loop; `_subtimecoef[s] = sum(row)` -/
def rkStage (R : α → V → V) (dtm : α) (sc : V → V) (t0 : α) (q0 : V)
    (st : RkState α V) (row : List α) : RkState α V :=
  let r := R st.time st.data
  { prhs := st.prhs ++ [r],
    calls := st.calls ++ [(st.time, st.data)],
    time := t0 + dtm * row.sum,
    data := q0 + sc (rkAggregate row st.prhs r) }

/-- `rkmodel.step` with table `tbl` -/
def rkStepG (tbl : List (List α)) (R : α → V → V) (dtm : α) (sc : V → V) (t0 : α) (q0 : V) :
    StepOut α V :=
  let st := tbl.foldl (rkStage R dtm sc t0 q0) { prhs := [], calls := [], time := t0, data := q0 }
  { calls := st.calls, time := st.time, data := st.data }

/-- `rk2.step` (midpoint).  `add_res(pfield, dtloc/2)` advances the time by `min(dtloc/2)`. -/
def rk2StepG (R : α → V → V) (dtm : α) (sc : V → V) (schalf : V → V) (t0 : α) (q0 : V) :
    StepOut α V :=
  let r1 := R t0 q0
  let t1 := t0 + dtm / 2 * 1
  let q1 := q0 + schalf r1
  let r2 := R t1 q1
  { calls := [(t0, q0), (t1, q1)], time := t0 + dtm * 1, data := q0 + sc r2 }

/-- one pass of the low-storage loop: `add_res(pfield, dtloc*beta, tc)`; the time advance is
`min(dtloc*beta) * tc`, where `tc` is the sub-time coefficient passed by the code
(`tcOf beta`; the repaired code passes `1`, the pinned code passed `beta`). -/
def lsStage (tcOf : α → α) (R : α → V → V) (dtm : α) (sc : V → V) (t0 : α) (q0 : V)
    (st : StepOut α V) (beta : α) : StepOut α V :=
  let r := R st.time st.data
  { calls := st.calls ++ [(st.time, st.data)],
    time := t0 + dtm * beta * tcOf beta,
    data := q0 + beta • sc r }

/-- `LSrkmodelHH.step` -/
def lsStepG (tcOf : α → α) (betas : List α) (R : α → V → V) (dtm : α) (sc : V → V)
    (t0 : α) (q0 : V) : StepOut α V :=
  betas.foldl (lsStage tcOf R dtm sc t0 q0) { calls := [], time := t0, data := q0 }

/-! ### scalar time step -/

def explicitStep (R : α → V → V) (dt t : α) (q : V) : StepOut α V :=
  explicitStepG R dt (fun v => dt • v) t q
def rkStep (tbl : List (List α)) (R : α → V → V) (dt t : α) (q : V) : StepOut α V :=
  rkStepG tbl R dt (fun v => dt • v) t q
def rk2Step (R : α → V → V) (dt t : α) (q : V) : StepOut α V :=
  rk2StepG R dt (fun v => dt • v) (fun v => (dt / 2) • v) t q
/-- low-storage step as in the (repaired) code: sub-time coefficient 1 -/
def lsStep (betas : List α) (R : α → V → V) (dt t : α) (q : V) : StepOut α V :=
  lsStepG (fun _ => 1) betas R dt (fun v => dt • v) t q

end Flowdyn
