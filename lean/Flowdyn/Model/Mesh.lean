/-
Model of the 1D meshes: `flowdyn/mesh.py` (mesh1d / unimesh, refinedmesh, morphedmesh) and the
volume-weighted averages of `flowdyn/meshbase.py`.

A mesh is its number of cells `n`, its face positions `xf 0 … xf n` (a function on ℕ, values beyond
`n` are irrelevant) and the `length` attribute that the periodic gradient closure of `fvm1d` uses.
`np.linspace(0, L, n+1)` is modelled as `i * (L / n)` (its last point is exactly `L`; equal in exact
arithmetic).
-/
import Flowdyn.Num
import Mathlib.Algebra.BigOperators.Group.Finset.Basic
import Mathlib.Data.Rat.Floor

namespace Flowdyn
variable {α : Type} [Field α]

structure Mesh1D (α : Type) where
  n : ℕ
  xf : ℕ → α
  length : α

namespace Mesh1D
/-- `calc_centers`: `xc[i] = (xf[i]+xf[i+1])/2` -/
def xc (m : Mesh1D α) (i : ℕ) : α := (m.xf i + m.xf (i + 1)) / 2
/-- `vol` / `dx`: `xf[1:n+1] - xf[0:n]` -/
def vol (m : Mesh1D α) (i : ℕ) : α := m.xf (i + 1) - m.xf i
/-- `average`: `np.average(data, weights=vol)` -/
def average (m : Mesh1D α) (d : ℕ → α) : α :=
  (∑ i ∈ Finset.range m.n, d i * m.vol i) / (∑ i ∈ Finset.range m.n, m.vol i)
end Mesh1D

/-- `mesh1d(ncell, length, x0)`: `np.linspace(0., length, ncell+1) + x0` -/
def uniMesh (n : ℕ) (L x0 : α) : Mesh1D α :=
  { n := n, xf := fun i => (i : α) * (L / n) + x0, length := L }

/-- `morphedmesh(ncell, length, x0, morph)`: `morph(linspace + x0)`; `length` is the span of the
morphed faces `xf[-1]-xf[0]` -/
def morphedMesh (n : ℕ) (L x0 : α) (morph : α → α) : Mesh1D α :=
  { n := n, xf := fun i => morph ((i : α) * (L / n) + x0),
    length := morph ((n : α) * (L / n) + x0) - morph ((0 : ℕ) * (L / n) + x0) }

/-- number of cells of the first zone of `refinedmesh`: `nc1 = int(ncell*a/(a+b)*(1+1e-12))` — the integer part of the zone
proportion, with a relative guard of 1e-12 against the round-off of the float quotient (executable at ℚ) -/
def refinedNc1 (n : ℕ) (a b : ℚ) : ℕ := ⌊((n : ℚ) * a / (a + b)) * (1 + 1 / 10 ^ 12)⌋.toNat

/-- `refinedmesh(ncell, length, ratio, nratioa, nratiob)` with `nc1 = int(ncell*a/(a+b))` cells in
the first zone: `append(linspace(0, dx1*nc1, nc1, endpoint=False), linspace(dx1*nc1, length, nc2+1))` -/
def refinedMesh (n : ℕ) (L ratio a b : α) (nc1 : ℕ) : Mesh1D α :=
  let dx1 := (a + b) * L / ((a + ratio * b) * n)
  let nc2 := n - nc1
  { n := n,
    xf := fun i => if i < nc1 then (i : α) * (dx1 * nc1 / nc1)
                   else dx1 * nc1 + ((i - nc1 : ℕ) : α) * ((L - dx1 * nc1) / nc2),
    length := L }

/-- a mesh given directly by its faces (`mesh.xf = …; mesh.xc = mesh.calc_centers()`) -/
def facesMesh (n : ℕ) (xf : ℕ → α) (L : α) : Mesh1D α := { n := n, xf := xf, length := L }

end Flowdyn
