import Flowdyn.Exec.Loop
def main : IO Unit := Flowdyn.Exec.main
